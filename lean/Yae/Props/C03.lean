/-
  C03. "For every accepted program and every conforming environment, the bytecode VM (both
  dispatch loops), the closure compiler and the AST interpreter produce equal values, or all
  fail; and they invoke host-registered functions with the same arguments in the same order.
  The only permitted difference is that the VM may refuse, at compile time, a program exceeding
  its encoding capacity (65 535 constants or literal members, 255 call arguments)."

  Model: `Yae.Model.Eval` (`eval`, the reference evaluator the closure compiler and the
  interpreter are tied to), `Yae.Model.Vm` (`compile`, `run`, tied byte for byte / step for step
  to `vm/compiler.go` and `vm/switchthread.go`).  Proofs: `Yae.Proofs.VmSim*`:
    VmSimBase    one lemma per machine instruction, stack lemmas, built-in table facts
    VmSimLayout  `LayE funs P C e o o'`: buffer `C` holds at `[o, o')` the code of `e` (pool `P`)
    VmSimCode    prefixes, bytes, `decodeAt` of emitted bytes
    VmSimCompile `compile` produces a layout (append-only code and pool; `patch` stays inside)
    VmSimExec    the simulation for literals, identifiers, list/map/object literals, member,
                 subscript
    VmSimCall    the simulation for calls: strict (opcode, `CALL_BY_VALUE`, `DYNAMIC_CALL`),
                 `if/&&/||` as jumps, `!`, lazy host calls with thunks (`CALL_BY_NEED`)
    VmSimRefuse  on a well-annotated tree `compile` fails only with `overflow`
  and, for checked programs, `Yae.Proofs.VmChecked*`:
    VmCheckedAnn     the tree `check` returns carries what the compiler relies on (`CK`, gives `wa`)
    VmCheckedNoLazy  `noLazy`, `NoLazyEnv`; evaluation creates no lazy function values
    VmCheckedKinds   `KA` from `CK`, type soundness (C01) and `DynStrict`
    VmCheckedFuel    fuel monotonicity of `run`
    VmCheckedMain    the three hypotheses together; the fuel of `runVm` through C11
    VmCheckedWitness the D20 witness, a worked example, a deep program
    VmCheckedRefuse  operand ranges read back by the decoder; exhibited overflows
    VmCheckedSizes   `compile` on sizes (`sizes`), an exact abstraction
    VmCheckedSmall   `sizes` does not overflow on small trees

  What is proved here.

  A. The classical simulation theorem (`vm_correct_partial`, `vm_correct`), for ALL expression
  forms the compiler accepts (no syntactic fragment is excluded).  The hypotheses, each of which
  is needed (see the counterexamples below):

  `WellAnnotated funs e`  (decidable, syntactic; what `types.Check` leaves on the tree):
      list/map/object literals carry their type (`[]` : `list[⊥]`, `[:]` : `map[⊥,⊥]`, an object
      type with as many fields as the literal); subscripts carry a list or map type; static
      calls resolve in `funs`, and a call resolved to a built-in has the built-in's arity and the
      registered declaration has the built-in's laziness flag; no sugar nodes.
  `KindsAgree ρ e`  (semantic; two consequences of type soundness, C01):
      whenever the operand of a subscript node evaluates, its value has the annotated kind
      (the evaluator dispatches on the value, the compiler on the annotation); whenever the callee
      of a dynamic call evaluates, the value is not a LAZY function value (the machine refuses
      `DYNAMIC_CALL` of a lazy function, the evaluator builds thunks).
  `NotStuck r`  the evaluator's outcome is a value or a failure other than an internal fault
      (`Fail.stuck`: unchecked cast, nil, unreachable).  A miss of the harness' table of external
      functions (`stuck "extern-miss:…"`, a device of the model, `C02.Allowed`) is NOT counted as
      an internal fault: it is raised inside `applyBuiltin`, which both sides call with the same
      arguments, and is reproduced like any other failure.  On an internal fault the two sides do
      differ (e.g. an unbound identifier: `OP_LOAD` pushes nil, the evaluator faults).

  Conclusion: with `W e + 1` units of fuel or more (an explicit bound computed from the tree),
  `run` from offset 0 on the empty stack returns exactly what `eval` returns: the same value or
  the same failure AND the same final log, i.e. the same host-function calls with the same
  rendered arguments in the same order, and the same prints.

  B. The end-to-end statement for checked programs (`vm_correct_checked`, `runVm_correct_checked`).
  From  `check Γ c e = .ok (T, e', c')`,  `FunsOK Γ.funs`,  `EnvOK Γ ρ`  (the hypotheses of
  C01.preservation / C02.progress, in the same form),  `compile Γ.funs e' = .ok (code, pool)`  and
  ONE extra hypothesis,

  `NoLazyFunValues ρ`  (decidable, structural): no variable of `ρ` is bound to a value that
      contains, at any depth (fields, elements, map values, optional payloads), a function value
      with the lazy flag,

  (or, weaker and exact, the semantic `DynCalleesStrict ρ e'`: whenever the callee of a dynamic
  call evaluates, the value is not a lazy function value; it is a part of `KindsAgree`
  (`kindsAgree_dynCalleesStrict`), and `NoLazyFunValues ρ` implies it for every expression
  (`noLazy_dynCalleesStrict`); the `_strict` variants of the theorems take it instead)
  the three hypotheses of A are derived (`checked_wellAnnotated` from the checker,
  `checked_kindsAgree` from type soundness C01 and from `noLazy_preserved`, `checked_notStuck`
  from progress C02), so: for every log and every fuel `F ≥ vmFuel e'`,
  `run F ρ pool code 0 [] log = eval (e'.depth+1) false ρ e' log`; the same for every fuel from
  the number of emitted bytes on (`vm_correct_checked_size`); and, with no fuel parameter,
  `runVm ρ code pool = runEval false ρ e'`.

  Why the extra hypothesis: `KindsAgree` asks that the callee of a dynamic call is never a lazy
  function value.  Type soundness does not give that: a function type does not say whether the
  function is lazy, and `EnvOK` admits lazy function values (`declOK`).  This is defect D20 of the
  Go machine (`(o.f)(x)`, `fs[0](x)` with a lazy `f`: `DYNAMIC_CALL` hands evaluated arguments to a
  function that expects thunks; the model's machine stops with an internal fault there).
  `checked_needs_noLazy` is a kernel-checked witness: a checked program in a conforming
  environment, all hypotheses but `NoLazyFunValues` true, on which `run` and `eval` differ.
  Function values are never created by evaluation (`noLazy_preserved`: literals, built-ins and
  the host behaviours of the model only pass them on; no typing needed), so a condition on the
  environment is enough; host functions need no extra condition, since in the model
  (`HostBeh`) they return an argument, a constant or the value of a forced thunk.

  `runVm`'s fuel: `vmFuel e' ≤ 1000 * (totalCodeSize + 1)` is FALSE in general (`W` doubles at
  every call argument, the code grows by a byte: `vmFuel_exceeds_runVm_fuel`, thirteen nested
  negations).  `runVm_correct_checked` goes through C11 instead: compiled code of a checked tree
  verifies (`VmCV.compile_verified`), verified code does not run out of fuel within
  `totalCodeSize` steps (`VmVerify.verify_good`), and an outcome other than fuel exhaustion does
  not depend on the fuel (`run_fuel_mono`, proved here for all of `run`).

  C. Refusals.  `refuse` / `refuse_overflow`: on a well-annotated tree `compile` fails only with
  `overflow`; `refuse_checked`: so for checked programs.
  `refuse_exact`: WHEN it does.  `VmChk.sizes funs e` is `compile` run on SIZES only (the code
  buffer and the constant pool replaced by two numbers; same control structure; the checks are
  `sU16` / `sU8` / `sConst` / `sPatch`: the pool size at every constant, the member count of a
  list / map literal, every jump target, each above 65 535, and the argument count of a call
  above 255).  `compile` fails iff `sizes` fails, with the same error, and on success the sizes
  of the code and of the pool are the numbers `sizes` returns.  So a refusal is a function of
  running totals only, never of what the constants or instructions are.
  `overflows_long_list` / `overflows_many_args` / `refuse_counts`: exhibited overflowing shapes
  (a list literal of more than 65 535 literal members, which the checker accepts; a dynamic call
  with more than 255 arguments; any list / map literal or dynamic call with such a count), proved
  by lemma (not by evaluation).

  `compiles_small`: conversely, a well-annotated tree of at most 4095 nodes in which no call has
  more than 255 arguments is never refused (the compiler emits at most 16 bytes and 2 constants
  per node).

  Not proved here: a closed formula for `sizes` (the pool and jump-target conditions are on
  running totals, per code buffer for the targets: deferred bodies start a fresh buffer), i.e.
  what happens between 4095 nodes and the exhibited overflows is decided by `sizes`.  `run` is the
  model of `switchThreading`; the second dispatch loop and the closure compiler / interpreter are
  tied to `run` / `eval` by the differential harness, not by proof.
-/
import Yae.Proofs.VmSimCall
import Yae.Proofs.VmSimCompile
import Yae.Proofs.VmSimRefuse
import Yae.Proofs.VmCheckedMain
import Yae.Proofs.VmCheckedWitness
import Yae.Proofs.VmCheckedRefuse
import Yae.Proofs.VmCheckedSizes
import Yae.Proofs.VmCheckedSmall
namespace Yae.C03
open Yae Yae.Vm Yae.VmSim

/-- what the checker guarantees and the compiler relies on (decidable) -/
def WellAnnotated (funs : List FunDecl) (e : Expr) : Prop := wa funs e = true

instance (funs : List FunDecl) (e : Expr) : Decidable (WellAnnotated funs e) := by
  unfold WellAnnotated; infer_instance

/-- the values that occur have the statically known kind where the compiler dispatched on it -/
def KindsAgree (ρ : REnv) (e : Expr) : Prop := KA ρ e

/-- fuel that suffices for the machine: every instruction of the main buffer and of the thunk
bodies forced along the way is counted by `W` -/
def vmFuel (e : Expr) : Nat := W e + 1

/-- **Simulation (compiler correctness).**  All expression forms; outcomes that are not internal
faults. -/
theorem vm_correct_partial {funs : List FunDecl} {e : Expr} {code : Code} {pool : Pool}
    (hc : compile funs e = .ok (code, pool)) (hw : WellAnnotated funs e)
    {ρ : REnv} (hρ : ρ.funs = funs) (hk : KindsAgree ρ e) (log : List Event)
    (hns : NotStuck (eval (e.depth + 1) false ρ e log).1)
    {F : Nat} (hF : vmFuel e ≤ F) :
    run F ρ pool code 0 [] log = eval (e.depth + 1) false ρ e log := by
  obtain ⟨ob, hlay, hret⟩ := compile_layout hc
  exact exec_correct hρ hlay hret hw hk hF log hns

/-- non-vacuity: `[x, true]` with `x` bound -/
example :
    let e : Expr := .list Pos.unknown (.cons (.ident Pos.unknown "x") (.cons (.bool Pos.unknown true) .nil))
      (some (.list .bool))
    let ρ : REnv := { vars := [("x", .bool false)], funs := [] }
    (∃ code pool, compile [] e = .ok (code, pool)) ∧ WellAnnotated [] e ∧ KindsAgree ρ e ∧
      NotStuck (eval (e.depth + 1) false ρ e []).1 :=
  by
  refine ⟨?_, by decide, ⟨trivial, trivial, trivial⟩, ?_⟩
  · simp only [compile, compileE, compileList, Expr.depth, depthList]
    exact ⟨_, _, rfl⟩
  · simp [eval, evalList, Expr.depth, depthList, REnv.lookupVar, bind_apply]

/-- **C03, first sentence, VM side**, given that evaluation never ends in an internal fault
(type soundness, C01/C02): for every log, i.e. from every history, the machine and the evaluator
return the same value or the same failure, with the same final log. -/
theorem vm_correct {funs : List FunDecl} {e : Expr} {code : Code} {pool : Pool}
    (hc : compile funs e = .ok (code, pool)) (hw : WellAnnotated funs e)
    {ρ : REnv} (hρ : ρ.funs = funs) (hk : KindsAgree ρ e)
    (hsound : ∀ log, NotStuck (eval (e.depth + 1) false ρ e log).1) :
    ∀ log F, vmFuel e ≤ F → run F ρ pool code 0 [] log = eval (e.depth + 1) false ρ e log :=
  fun log _ hF => vm_correct_partial hc hw hρ hk log (hsound log) hF

example : ∀ log, NotStuck (eval ((Expr.bool Pos.unknown true).depth + 1) false
    { vars := [], funs := [] } (.bool Pos.unknown true) log).1 := fun _ => by simp [eval, Expr.depth]

/-- the "∃ F₀, ∀ F ≥ F₀" form -/
theorem vm_correct_exists_fuel {funs : List FunDecl} {e : Expr} {code : Code} {pool : Pool}
    (hc : compile funs e = .ok (code, pool)) (hw : WellAnnotated funs e)
    {ρ : REnv} (hρ : ρ.funs = funs) (hk : KindsAgree ρ e) (log : List Event)
    (hns : NotStuck (eval (e.depth + 1) false ρ e log).1) :
    ∃ F₀, ∀ F, F₀ ≤ F → run F ρ pool code 0 [] log = eval (e.depth + 1) false ρ e log :=
  ⟨vmFuel e, fun _ hF => vm_correct_partial hc hw hρ hk log hns hF⟩

example : vmFuel (.bool Pos.unknown true) = 2 := rfl

/-- `NotStuck`: values, documented and host failures, and a miss of the externs table (which the
machine reproduces, as it calls the same `applyBuiltin`) qualify; internal faults do not -/
example : NotStuck (.ok (.num 1) : Except Fail Val) ∧
    NotStuck (.error .indexOutOfRange : Except Fail Val) ∧
    NotStuck (.error (.hostFail "f") : Except Fail Val) ∧
    NotStuck (.error (.stuck "extern-miss:regex") : Except Fail Val) ∧
    ¬ NotStuck (.error (.stuck "cast:fun") : Except Fail Val) := by
  refine ⟨trivial, trivial, trivial, ?_, ?_⟩ <;> simp

/-- **same host calls, same order, same arguments, same prints**: the final logs coincide -/
theorem vm_same_events {funs : List FunDecl} {e : Expr} {code : Code} {pool : Pool}
    (hc : compile funs e = .ok (code, pool)) (hw : WellAnnotated funs e)
    {ρ : REnv} (hρ : ρ.funs = funs) (hk : KindsAgree ρ e) (log : List Event)
    (hns : NotStuck (eval (e.depth + 1) false ρ e log).1) {F : Nat} (hF : vmFuel e ≤ F) :
    (run F ρ pool code 0 [] log).2 = (eval (e.depth + 1) false ρ e log).2 := by
  rw [vm_correct_partial hc hw hρ hk log hns hF]

example : (eval ((Expr.bool Pos.unknown true).depth + 1) false { vars := [], funs := [] }
    (.bool Pos.unknown true) []).2 = [] := by simp [eval, Expr.depth]

/-! ### why `vm_correct` needs `NotStuck` (or a bound-identifiers hypothesis)

`OP_LOAD` pushes nil for a variable missing from the environment, the evaluator faults. -/

/-- counterexample to the statement without `NotStuck`: `x` in the empty environment -/
theorem unbound_identifier_differs :
    let e : Expr := .ident Pos.unknown "x"
    let ρ : REnv := { vars := [], funs := [] }
    ∃ code pool, compile [] e = .ok (code, pool) ∧ WellAnnotated [] e ∧ KindsAgree ρ e ∧
      run 2 ρ pool code 0 [] [] = (.ok .nil, []) ∧
      eval (e.depth + 1) false ρ e [] = (.error (.stuck "missing-var"), []) :=
  by
  intro e ρ
  refine ⟨#[UInt8.ofNat Op.LOAD.code, 0, 0, UInt8.ofNat Op.RETURN.code], #[.name "x"], ?_, by decide, trivial, ?_, ?_⟩
  · simp only [e, compile, compileE, Expr.depth]; rfl
  · rw [run_load (i := 0) (x := "x") (nx := 3) rfl rfl, run_return (nx := 4) rfl]
    rfl
  · simp [e, ρ, eval, Expr.depth, REnv.lookupVar]

/-! ### the permitted difference: refusing at compile time -/

/-- on a well-annotated tree the compiler refuses only for an encoding overflow
(`emitU16` of a constant index, member count or jump target above 65 535, `emitU8` of an argument
count above 255: the only places `CErr.overflow` is thrown) -/
theorem refuse_overflow {funs : List FunDecl} {e : Expr} {err : CErr}
    (hw : WellAnnotated funs e) (h : compile funs e = .error err) : err = .overflow :=
  compile_refuse_overflow hw h

/-- every refusal is an overflow, or the tree is not well annotated: an unresolved callee
(`notDefined`) or a node the checker never produces (`unreachable`) -/
theorem refuse {funs : List FunDecl} {e : Expr} {err : CErr} (h : compile funs e = .error err) :
    err = .overflow ∨ (err = .notDefined ∧ ¬ WellAnnotated funs e) ∨
      ((∃ w, err = .unreachable w) ∧ ¬ WellAnnotated funs e) := by
  by_cases hw : WellAnnotated funs e
  · exact Or.inl (refuse_overflow hw h)
  · cases err with
    | overflow => exact Or.inl rfl
    | notDefined => exact Or.inr (Or.inl ⟨rfl, hw⟩)
    | unreachable w => exact Or.inr (Or.inr ⟨⟨w, rfl⟩, hw⟩)

/-- non-vacuity: a sugar node is refused as unreachable, a call whose callee is not registered as
not defined; neither tree is well annotated -/
example : compile [] (.group Pos.unknown (.bool Pos.unknown true)) = .error (.unreachable "sugar") ∧
    ¬ WellAnnotated [] (.group Pos.unknown (.bool Pos.unknown true)) := by
  refine ⟨?_, by decide⟩
  simp only [compile, compileE, Expr.depth]; rfl

example : compile [] (.call Pos.unknown 0 (.ident Pos.unknown "f") .nil none "λ f ()" (-1)) =
      .error .notDefined ∧
    ¬ WellAnnotated [] (.call Pos.unknown 0 (.ident Pos.unknown "f") .nil none "λ f ()" (-1)) := by
  refine ⟨?_, by decide⟩
  simp only [compile, compileE, Expr.depth]; rfl

/-! ## checked programs: the hypotheses of the simulation theorem, derived -/

/-- **No lazy function values in the environment** (decidable): no variable is bound to a value
that contains, at any depth (object fields, list elements, map values, optional payloads), a
function value with the lazy flag.  Lazy functions can still be registered in the function table
and called by name; what is excluded is a lazy function as a first-class VALUE. -/
def NoLazyFunValues (ρ : REnv) : Prop := VmChk.NoLazyEnv ρ

instance (ρ : REnv) : Decidable (NoLazyFunValues ρ) := by
  unfold NoLazyFunValues; infer_instance

/-- spelled out: every value a variable is bound to satisfies `VmChk.noLazy` -/
theorem noLazyFunValues_iff {ρ : REnv} :
    NoLazyFunValues ρ ↔ ∀ p ∈ ρ.vars, VmChk.noLazy p.2 = true := by
  unfold NoLazyFunValues VmChk.NoLazyEnv
  exact List.all_eq_true

example : VmChk.noLazy (.obj (.obj (.cons "f" (.fn "f" .nil .num) .nil))
      (.cons (.fn (.fn "f" .nil .num) (.host "f" (.constNum 1)) false) .nil)) = true ∧
    VmChk.noLazy (.list (.list (.fn "g" .nil .num))
      (.cons (.fn (.fn "g" .nil .num) (.host "g" (.force [])) true) .nil)) = false := by decide

/-- **Evaluation creates no lazy function values**: in an environment that holds none, whatever
the evaluator returns (any expression, checked or not, any fuel, with or without debug recording,
from any log) contains none.  Built-ins and host functions only pass function values on. -/
theorem noLazy_preserved {ρ : REnv} (hρ : NoLazyFunValues ρ) {fuel : Nat} {dbg : Bool} {e : Expr}
    {log log' : List Event} {v : Val} (h : eval fuel dbg ρ e log = (.ok v, log')) :
    VmChk.noLazy v = true :=
  VmChk.eval_noLazy hρ h

example : NoLazyFunValues Sound.Example.ρ2 ∧
    (eval 5 false Sound.Example.ρ2 Sound.Example.idProg' []).1 = .ok (.num 7) :=
  ⟨by decide, Sound.Example.idEval⟩

/-- the tree the checker returns is well annotated -/
theorem checked_wellAnnotated {Γ : TEnv} (hf : Sound.FunsOK Γ.funs) (hv : Sound.VarsOK Γ)
    {c : Nat} {e : Expr} {T : Ty} {e' : Expr} {c' : Nat}
    (hc : check Γ c e = .ok (T, e', c')) : WellAnnotated Γ.funs e' :=
  VmChk.checked_wa hf hv hc

/-- **The exact extra hypothesis** (semantic): in the positions the compiler visits, whenever the
callee of a dynamically dispatched call evaluates, the value is not a function value with the
lazy flag.  It is the part of `KindsAgree` that neither the checker nor type soundness gives. -/
def DynCalleesStrict (ρ : REnv) (e : Expr) : Prop := VmChk.DynStrict ρ e

/-- it is necessary: it is a part of `KindsAgree` … -/
theorem kindsAgree_dynCalleesStrict {ρ : REnv} {e : Expr} (h : KindsAgree ρ e) :
    DynCalleesStrict ρ e :=
  VmChk.ka_dynStrict e h

/-- … and it holds for EVERY expression when the environment holds no lazy function value -/
theorem noLazy_dynCalleesStrict {ρ : REnv} (hnl : NoLazyFunValues ρ) (e : Expr) :
    DynCalleesStrict ρ e :=
  VmChk.noLazy_dynStrict hnl e

example : DynCalleesStrict Sound.Example.ρ2 Sound.Example.idProg' :=
  noLazy_dynCalleesStrict (by decide) _

/-- in a conforming environment, given `DynCalleesStrict`, the kinds agree on the tree the checker
returns: the operand of a subscript has the annotated kind by type soundness (C01) -/
theorem checked_kindsAgree_strict {Γ : TEnv} {ρ : REnv} (hf : Sound.FunsOK Γ.funs)
    (henv : Sound.EnvOK Γ ρ) {c : Nat} {e : Expr} {T : Ty} {e' : Expr} {c' : Nat}
    (hc : check Γ c e = .ok (T, e', c')) (hd : DynCalleesStrict ρ e') : KindsAgree ρ e' :=
  VmChk.checked_ka hf henv hd hc

/-- in a conforming environment without lazy function values, the kinds agree on the tree the
checker returns: subscript operands by type soundness (C01), callees by `noLazy_preserved` -/
theorem checked_kindsAgree {Γ : TEnv} {ρ : REnv} (hf : Sound.FunsOK Γ.funs) (henv : Sound.EnvOK Γ ρ)
    (hnl : NoLazyFunValues ρ) {c : Nat} {e : Expr} {T : Ty} {e' : Expr} {c' : Nat}
    (hc : check Γ c e = .ok (T, e', c')) : KindsAgree ρ e' :=
  checked_kindsAgree_strict hf henv hc (noLazy_dynCalleesStrict hnl e')

/-- progress (C02): the evaluation of the tree the checker returns, with more fuel than its
depth, never ends in an internal fault -/
theorem checked_notStuck {Γ : TEnv} {ρ : REnv} (hf : Sound.FunsOK Γ.funs) (henv : Sound.EnvOK Γ ρ)
    {c : Nat} {e : Expr} {T : Ty} {e' : Expr} {c' : Nat}
    (hc : check Γ c e = .ok (T, e', c')) (log : List Event) :
    NotStuck (eval (e'.depth + 1) false ρ e' log).1 :=
  VmChk.checked_notStuck hf henv hc (Nat.lt_succ_self _) false log

/-- non-vacuity of the three: `[o.a, 2][1] + 2` (a subscript, a member access, a statically
dispatched call) in the environment of `Sound.Example` (all built-ins registered; `o` bound
to an object value whose own type lists the fields in another order) -/
example : Sound.FunsOK Sound.Example.Γ.funs ∧ Sound.EnvOK Sound.Example.Γ Sound.Example.ρ ∧
    NoLazyFunValues Sound.Example.ρ ∧
    check Sound.Example.Γ 0 VmChk.Ex.prog = .ok (.num, VmChk.Ex.prog', 0) ∧
    ∃ code pool, compile Sound.Example.Γ.funs VmChk.Ex.prog' = .ok (code, pool) :=
  ⟨Sound.Example.funsOK, Sound.Example.envOK, VmChk.Ex.noLazy, VmChk.Ex.checked,
    VmChk.Ex.compiled⟩

/-! ## C03 for checked programs -/

/-- the same under the exact (weakest) extra hypothesis `DynCalleesStrict ρ e'` -/
theorem vm_correct_checked_strict {Γ : TEnv} {ρ : REnv} (hf : Sound.FunsOK Γ.funs)
    (henv : Sound.EnvOK Γ ρ) {c : Nat} {e : Expr} {T : Ty} {e' : Expr} {c' : Nat}
    (hc : check Γ c e = .ok (T, e', c')) (hd : DynCalleesStrict ρ e') {code : Code} {pool : Pool}
    (hcomp : compile Γ.funs e' = .ok (code, pool)) :
    ∀ log F, vmFuel e' ≤ F → run F ρ pool code 0 [] log = eval (e'.depth + 1) false ρ e' log :=
  vm_correct hcomp (checked_wellAnnotated hf henv.tys hc) henv.funs
    (checked_kindsAgree_strict hf henv hc hd) (checked_notStuck hf henv hc)

/-- **C03, end to end (VM side).**  An accepted program (`check` succeeds and returns the
annotated tree `e'`), an environment that passed the environment check and holds no lazy
function VALUE, and the bytecode the compiler produced for `e'`: from every log, with any fuel
from `vmFuel e'` on, the machine returns exactly what the reference evaluator returns: the same
value or the same (documented, host or externs-table) failure, and the same final log, i.e. the
same host calls with the same arguments in the same order and the same prints. -/
theorem vm_correct_checked {Γ : TEnv} {ρ : REnv} (hf : Sound.FunsOK Γ.funs) (henv : Sound.EnvOK Γ ρ)
    (hnl : NoLazyFunValues ρ) {c : Nat} {e : Expr} {T : Ty} {e' : Expr} {c' : Nat}
    (hc : check Γ c e = .ok (T, e', c')) {code : Code} {pool : Pool}
    (hcomp : compile Γ.funs e' = .ok (code, pool)) :
    ∀ log F, vmFuel e' ≤ F → run F ρ pool code 0 [] log = eval (e'.depth + 1) false ρ e' log :=
  vm_correct_checked_strict hf henv hc (noLazy_dynCalleesStrict hnl e') hcomp

/-- the hypotheses hold together, and so does the conclusion, for `[o.a, 2][1] + 2` -/
example : ∃ code pool, compile Sound.Example.Γ.funs VmChk.Ex.prog' = .ok (code, pool) ∧
    ∀ log F, vmFuel VmChk.Ex.prog' ≤ F → run F Sound.Example.ρ pool code 0 [] log =
      eval (VmChk.Ex.prog'.depth + 1) false Sound.Example.ρ VmChk.Ex.prog' log := by
  obtain ⟨code, pool, h⟩ := VmChk.Ex.compiled
  exact ⟨code, pool, h, vm_correct_checked Sound.Example.funsOK Sound.Example.envOK
    VmChk.Ex.noLazy VmChk.Ex.checked h⟩

/-- … and with it what type soundness says about the evaluator carries over to the machine: a
value the machine returns has the inferred type (C01), a failure it stops with is an allowed one
(C02) -/
theorem vm_sound_checked {Γ : TEnv} {ρ : REnv} (hf : Sound.FunsOK Γ.funs) (henv : Sound.EnvOK Γ ρ)
    (hnl : NoLazyFunValues ρ) {c : Nat} {e : Expr} {T : Ty} {e' : Expr} {c' : Nat}
    (hc : check Γ c e = .ok (T, e', c')) {code : Code} {pool : Pool}
    (hcomp : compile Γ.funs e' = .ok (code, pool)) (log : List Event) {F : Nat}
    (hF : vmFuel e' ≤ F) :
    (∃ v log', run F ρ pool code 0 [] log = (.ok v, log') ∧ Sound.HasTy v T) ∨
    (∃ f log', run F ρ pool code 0 [] log = (.error f, log') ∧ Sound.Allowed f) := by
  rw [vm_correct_checked hf henv hnl hc hcomp log F hF]
  have hA := (Sound.check_ann hf henv.tys e c T e' c' hc).1
  have h := Sound.evalOK (dbg := false) hf henv (e'.depth + 1) e' T hA log
  rcases hr : eval (e'.depth + 1) false ρ e' log with ⟨r, l⟩
  rw [hr] at h
  cases r with
  | ok v => exact .inl ⟨v, l, rfl, h⟩
  | error f =>
    rcases h with h | ⟨_, h⟩
    · exact .inr ⟨f, l, rfl, h⟩
    · exact absurd (Nat.lt_succ_self _) h

/-! ### the fuel `runVm` passes -/

/-- **Fuel monotonicity of the machine**: an outcome other than fuel exhaustion does not depend
on the fuel (any code, any pool, any start offset, stack and log: no hypothesis) -/
theorem run_fuel_mono {ρ : REnv} {pool : Pool} {code : Code} {pc : Nat} {st : List Slot}
    {log : List Event} {F F' : Nat} (hle : F ≤ F')
    (h : (run F ρ pool code pc st log).1 ≠ .error .fuel) :
    run F' ρ pool code pc st log = run F ρ pool code pc st log :=
  VmChk.run_fuel_mono hle h

example : (run 2 { vars := [], funs := [] } #[.name "x"]
    #[UInt8.ofNat Op.LOAD.code, 0, 0, UInt8.ofNat Op.RETURN.code] 0 [] []).1 ≠ .error .fuel := by
  rw [run_load (i := 0) (x := "x") (nx := 3) rfl rfl, run_return (nx := 4) rfl]
  simp

/-- `vmFuel e' ≤ 1000 * (totalCodeSize code pool + 1)` is false in general: thirteen nested
negations `!!…!true`, a checked program, compile to 17 bytes, and `vmFuel` is 49 148 -/
theorem vmFuel_exceeds_runVm_fuel :
    check Sound.Example.Γ 0 (VmChk.Deep.nots 13) = .ok (.bool, VmChk.Deep.nots' 13, 0) ∧
    compile Sound.Example.Γ.funs (VmChk.Deep.nots' 13) =
      .ok (VmChk.Deep.code13, VmChk.Deep.pool13) ∧
    1000 * (totalCodeSize VmChk.Deep.code13 VmChk.Deep.pool13 + 1) < vmFuel (VmChk.Deep.nots' 13) :=
  ⟨VmChk.Deep.checked, VmChk.Deep.compiled, VmChk.Deep.exceeds⟩

/-- the machine agrees with the evaluator already from the number of emitted bytes on (main code
plus deferred bodies; every instruction is at least one byte): C11's step bound for verified code
and fuel monotonicity -/
theorem vm_correct_checked_size_strict {Γ : TEnv} {ρ : REnv} (hf : Sound.FunsOK Γ.funs)
    (henv : Sound.EnvOK Γ ρ) {c : Nat} {e : Expr} {T : Ty} {e' : Expr} {c' : Nat}
    (hc : check Γ c e = .ok (T, e', c')) (hd : DynCalleesStrict ρ e') {code : Code} {pool : Pool}
    (hcomp : compile Γ.funs e' = .ok (code, pool)) :
    ∀ log F, totalCodeSize code pool ≤ F →
      run F ρ pool code 0 [] log = eval (e'.depth + 1) false ρ e' log :=
  fun log _ hF => VmChk.checked_run_eq_size hf henv hd hc hcomp log hF

/-- the same from `NoLazyFunValues ρ` -/
theorem vm_correct_checked_size {Γ : TEnv} {ρ : REnv} (hf : Sound.FunsOK Γ.funs)
    (henv : Sound.EnvOK Γ ρ)
    (hnl : NoLazyFunValues ρ) {c : Nat} {e : Expr} {T : Ty} {e' : Expr} {c' : Nat}
    (hc : check Γ c e = .ok (T, e', c')) {code : Code} {pool : Pool}
    (hcomp : compile Γ.funs e' = .ok (code, pool)) :
    ∀ log F, totalCodeSize code pool ≤ F →
      run F ρ pool code 0 [] log = eval (e'.depth + 1) false ρ e' log :=
  vm_correct_checked_size_strict hf henv hc (noLazy_dynCalleesStrict hnl e') hcomp

/-- `runVm` = `runEval` under the exact extra hypothesis -/
theorem runVm_correct_checked_strict {Γ : TEnv} {ρ : REnv} (hf : Sound.FunsOK Γ.funs)
    (henv : Sound.EnvOK Γ ρ) {c : Nat} {e : Expr} {T : Ty} {e' : Expr} {c' : Nat}
    (hc : check Γ c e = .ok (T, e', c')) (hd : DynCalleesStrict ρ e') {code : Code} {pool : Pool}
    (hcomp : compile Γ.funs e' = .ok (code, pool)) :
    runVm ρ code pool = runEval false ρ e' := by
  unfold runVm runEval
  rw [vm_correct_checked_size_strict hf henv hc hd hcomp []
    (1000 * (totalCodeSize code pool + 1)) (by omega)]

/-- **C03 for the entry points** (no fuel parameter): `runVm`, which passes
`1000 * (totalCodeSize + 1)` units of fuel, returns on the compiled program what `runEval`
returns on the checked tree: the same result and the same events, oldest first. -/
theorem runVm_correct_checked {Γ : TEnv} {ρ : REnv} (hf : Sound.FunsOK Γ.funs)
    (henv : Sound.EnvOK Γ ρ)
    (hnl : NoLazyFunValues ρ) {c : Nat} {e : Expr} {T : Ty} {e' : Expr} {c' : Nat}
    (hc : check Γ c e = .ok (T, e', c')) {code : Code} {pool : Pool}
    (hcomp : compile Γ.funs e' = .ok (code, pool)) :
    runVm ρ code pool = runEval false ρ e' :=
  runVm_correct_checked_strict hf henv hc (noLazy_dynCalleesStrict hnl e') hcomp

/-- the deep program, whose `vmFuel` exceeds `runVm`'s fuel, is covered as well -/
example : runVm Sound.Example.ρ VmChk.Deep.code13 VmChk.Deep.pool13 =
    runEval false Sound.Example.ρ (VmChk.Deep.nots' 13) :=
  runVm_correct_checked Sound.Example.funsOK Sound.Example.envOK VmChk.Ex.noLazy
    VmChk.Deep.checked VmChk.Deep.compiled

/-! ### `NoLazyFunValues` is needed: defect D20 -/

/-- **Witness.**  `h.f(1)` where the environment binds `h` to an object whose field `f` is a
LAZY host function value of type `(num) → num` (it forces its argument).  The program is
accepted, the environment passes the environment check, the tree is well annotated, the compiler
produces `LOAD h; OBJ_LOAD f; CONST 1; DYNAMIC_CALL 1; RETURN`; the evaluator calls the function
with a thunk and returns `1` after logging the host call, the machine stops at `DYNAMIC_CALL`
with every fuel (in Go it goes on and passes the evaluated argument where a thunk is expected).
So `vm_correct_checked` without `NoLazyFunValues` is false. -/
theorem checked_needs_noLazy :
    Sound.FunsOK VmChk.D20.Γ.funs ∧ Sound.EnvOK VmChk.D20.Γ VmChk.D20.ρ ∧
    check VmChk.D20.Γ 0 VmChk.D20.prog = .ok (.num, VmChk.D20.prog', 2) ∧
    compile VmChk.D20.Γ.funs VmChk.D20.prog' = .ok (VmChk.D20.code, VmChk.D20.pool) ∧
    WellAnnotated VmChk.D20.Γ.funs VmChk.D20.prog' ∧
    ¬ NoLazyFunValues VmChk.D20.ρ ∧ ¬ DynCalleesStrict VmChk.D20.ρ VmChk.D20.prog' ∧
    eval (VmChk.D20.prog'.depth + 1) false VmChk.D20.ρ VmChk.D20.prog' [] =
      (.ok (.num 1), [.call "lz" []]) ∧
    ∀ F, vmFuel VmChk.D20.prog' ≤ F →
      run F VmChk.D20.ρ VmChk.D20.pool VmChk.D20.code 0 [] [] =
        (.error (.stuck "dynamic call of a lazy function"), []) :=
  ⟨VmChk.D20.funsOK, VmChk.D20.envOK, VmChk.D20.checked, VmChk.D20.compiled, VmChk.D20.annotated,
    VmChk.D20.notNoLazy, VmChk.D20.notDynStrict, VmChk.D20.evaluated,
    fun F hF => VmChk.D20.ran F (by
      have : 5 ≤ vmFuel VmChk.D20.prog' := by decide
      omega)⟩

/-! ### refusals of checked programs -/

/-- a checked program is refused only for an encoding overflow -/
theorem refuse_checked {Γ : TEnv} (hf : Sound.FunsOK Γ.funs) (hv : Sound.VarsOK Γ)
    {c : Nat} {e : Expr} {T : Ty} {e' : Expr} {c' : Nat}
    (hc : check Γ c e = .ok (T, e', c')) {err : CErr} (h : compile Γ.funs e' = .error err) :
    err = .overflow :=
  refuse_overflow (checked_wellAnnotated hf hv hc) h

/-- **When the compiler refuses.**  `VmChk.sizes` is `compile` with the two buffers replaced by
their sizes: `compile` fails exactly when `sizes` fails, with the same error; when it succeeds,
the code and the pool have the sizes `sizes` computes (and conversely).  The checks in `sizes`
are: 65 536 constants already allocated when one more is needed (`sConst`); a list / map literal
with more than 65 535 members, a jump target beyond offset 65 535 (`sU16`, `sPatch`); a call
with more than 255 arguments (`sU8`). -/
theorem refuse_exact (funs : List FunDecl) (e : Expr) :
    (∀ err, compile funs e = .error err ↔ VmChk.sizes funs e = .error err) ∧
    (∀ code pool, compile funs e = .ok (code, pool) →
      VmChk.sizes funs e = .ok (code.size, pool.size)) ∧
    (∀ r, VmChk.sizes funs e = .ok r →
      ∃ code pool, compile funs e = .ok (code, pool) ∧ r = (code.size, pool.size)) := by
  have h := VmChk.compile_sizes funs e
  refine ⟨fun err => ⟨fun hc => ?_, fun hs => ?_⟩, fun code pool hc => ?_, fun r hs => ?_⟩
  · rw [hc] at h; exact h.symm
  · rw [hs] at h
    cases hc : compile funs e with
    | ok r => rw [hc] at h; cases h
    | error err' => rw [hc] at h; cases h; rfl
  · rw [hc] at h; exact h.symm
  · rw [hs] at h
    cases hc : compile funs e with
    | ok r' => rw [hc] at h; obtain ⟨c, p⟩ := r'; cases h; exact ⟨c, p, rfl, rfl⟩
    | error err' => rw [hc] at h; cases h

/-- for checked programs: refused iff `sizes` overflows; compiled iff `sizes` succeeds -/
theorem refuse_exact_checked {Γ : TEnv} (hf : Sound.FunsOK Γ.funs) (hv : Sound.VarsOK Γ)
    {c : Nat} {e : Expr} {T : Ty} {e' : Expr} {c' : Nat}
    (hc : check Γ c e = .ok (T, e', c')) :
    ((∃ err, compile Γ.funs e' = .error err) ↔ VmChk.sizes Γ.funs e' = .error .overflow) ∧
    ((∃ code pool, compile Γ.funs e' = .ok (code, pool)) ↔ ∃ r, VmChk.sizes Γ.funs e' = .ok r) := by
  obtain ⟨h1, h2, h3⟩ := refuse_exact Γ.funs e'
  refine ⟨⟨fun ⟨err, h⟩ => ?_, fun h => ⟨_, (h1 _).2 h⟩⟩,
    ⟨fun ⟨code, pool, h⟩ => ⟨_, h2 _ _ h⟩, fun ⟨r, h⟩ => ?_⟩⟩
  · have := refuse_checked hf hv hc h
    subst this
    exact (h1 _).1 h
  · obtain ⟨code, pool, h, _⟩ := h3 r h
    exact ⟨code, pool, h⟩

/-- non-vacuity: `h.f(1)` compiles to 12 bytes and 3 constants, `[o.a, 2][1] + 2` to 23 and 6 -/
example : VmChk.sizes VmChk.D20.Γ.funs VmChk.D20.prog' = .ok (12, 3) :=
  (refuse_exact _ _).2.1 _ _ VmChk.D20.compiled

example : ∃ r, VmChk.sizes Sound.Example.Γ.funs VmChk.Ex.prog' = .ok r :=
  ((refuse_exact_checked Sound.Example.funsOK Sound.Example.envOK.tys VmChk.Ex.checked).2).1
    VmChk.Ex.compiled

/-- **Small programs are never refused.**  A well-annotated tree with at most 4095 nodes in
which no call has more than 255 arguments is compiled (16 bytes of code and 2 constants per node
bound what the compiler emits; `VmChk.nodes` counts the nodes, `VmChk.argsOK` checks the
argument counts). -/
theorem compiles_small {funs : List FunDecl} {e : Expr} (hw : WellAnnotated funs e)
    (ha : VmChk.argsOK e = true) (hn : VmChk.nodes e ≤ 4095) :
    ∃ code pool, compile funs e = .ok (code, pool) := by
  cases hc : compile funs e with
  | ok r => exact ⟨r.1, r.2, rfl⟩
  | error err =>
    have := refuse_overflow hw hc
    subst this
    exact absurd ((refuse_exact funs e).1 _ |>.1 hc) (VmChk.sizes_small funs ha hn)

/-- … in particular checked programs of that size -/
theorem compiles_small_checked {Γ : TEnv} (hf : Sound.FunsOK Γ.funs) (hv : Sound.VarsOK Γ)
    {c : Nat} {e : Expr} {T : Ty} {e' : Expr} {c' : Nat}
    (hc : check Γ c e = .ok (T, e', c')) (ha : VmChk.argsOK e' = true)
    (hn : VmChk.nodes e' ≤ 4095) : ∃ code pool, compile Γ.funs e' = .ok (code, pool) :=
  compiles_small (checked_wellAnnotated hf hv hc) ha hn

example : VmChk.argsOK VmChk.Ex.prog' = true ∧ VmChk.nodes VmChk.Ex.prog' = 9 := by decide

/-- **An exhibited overflowing program**: the list literal `[v, v, …, v]` with more than 65 535
number literals is accepted by the checker (in every environment, with type `list[num]`) and
refused by the compiler with `overflow`.  (Proved by lemma: a compiled list literal's member
count is read back from a 16-bit operand.) -/
theorem overflows_long_list (Γ : TEnv) (p q : Pos) (v : Float) (c : Nat) {n : Nat}
    (hn : 65535 < n + 1) :
    check Γ c (.list p (VmChk.lits (.num q v) (n+1)) none) =
      .ok (.list .num, .list p (VmChk.lits (.num q v) (n+1)) (some (.list .num)), c) ∧
    compile Γ.funs (.list p (VmChk.lits (.num q v) (n+1)) (some (.list .num))) = .error .overflow :=
  ⟨VmChk.check_lits Γ p q v c none n, VmChk.lits_overflow Γ.funs p q v (.list .num) hn⟩

/-- no list literal of more than 65 535 members, no map literal of more than 65 535 entries and no
dynamic call of more than 255 arguments is ever compiled, whatever the members are -/
theorem refuse_counts {funs : List FunDecl} {code : Code} {pool : Pool} :
    (∀ p es ty, 65535 < ExprList.length es → compile funs (.list p es ty) ≠ .ok (code, pool)) ∧
    (∀ p ps ty, 65535 < PairList.length ps → compile funs (.map p ps ty) ≠ .ok (code, pool)) ∧
    (∀ p col callee args cty index, 255 < ExprList.length args →
      compile funs (.call p col callee args cty "" index) ≠ .ok (code, pool)) :=
  ⟨fun _ _ _ h => VmChk.compile_long_list h code pool,
    fun _ _ _ h => VmChk.compile_long_map h code pool,
    fun _ _ _ _ _ _ h => VmChk.compile_many_args h code pool⟩

/-- a dynamic call with more than 255 literal arguments on a well-annotated callee: `overflow` -/
theorem overflows_many_args (funs : List FunDecl) (p q : Pos) (col : Int) (v : Float)
    (callee : Expr) (cty : Option Ty) (index : Int) (hcallee : WellAnnotated funs callee)
    {n : Nat} (hn : 255 < n) :
    compile funs (.call p col callee (VmChk.lits (.num q v) n) cty "" index) = .error .overflow :=
  VmChk.args_overflow funs p q col v callee cty index hcallee hn

example : WellAnnotated [] (.ident Pos.unknown "f") ∧ 255 < 256 := ⟨by decide, by decide⟩

#print axioms vm_correct_partial
#print axioms refuse_overflow
#print axioms refuse
#print axioms vm_correct
#print axioms vm_correct_exists_fuel
#print axioms vm_same_events
#print axioms unbound_identifier_differs
#print axioms noLazy_preserved
#print axioms checked_wellAnnotated
#print axioms kindsAgree_dynCalleesStrict
#print axioms noLazy_dynCalleesStrict
#print axioms checked_kindsAgree_strict
#print axioms checked_kindsAgree
#print axioms checked_notStuck
#print axioms vm_correct_checked_strict
#print axioms vm_correct_checked
#print axioms vm_sound_checked
#print axioms run_fuel_mono
#print axioms vmFuel_exceeds_runVm_fuel
#print axioms vm_correct_checked_size_strict
#print axioms vm_correct_checked_size
#print axioms runVm_correct_checked_strict
#print axioms runVm_correct_checked
#print axioms checked_needs_noLazy
#print axioms refuse_checked
#print axioms refuse_exact
#print axioms refuse_exact_checked
#print axioms compiles_small
#print axioms compiles_small_checked
#print axioms overflows_long_list
#print axioms refuse_counts
#print axioms overflows_many_args

end Yae.C03
