/-
  C03. "For every accepted program and every conforming environment, the bytecode VM (both
  dispatch loops), the closure compiler and the AST interpreter produce equal values, or all
  fail; and they invoke host-registered functions with the same arguments in the same order.
  The only permitted difference is that the VM may refuse, at compile time, a program exceeding
  its encoding capacity (65 535 constants or literal members, 255 call arguments)."

  Model: `Yae.Model.Eval` (`eval`, the reference evaluator the closure compiler and the
  interpreter are tied to), `Yae.Model.Vm` (`compile`, `run`, tied byte for byte / step for step
  to `vm/compiler.go` and `vm/switchthread.go`).  Proofs: `Yae.Proofs.VmSim*`:
    VmSimBase    one lemma per machine instruction, stack lemmas, built-in table facts
    VmSimLayout  `LayE funs P C e o o'`: buffer `C` holds at `[o, o')` the code of `e` (pool `P`)
    VmSimCode    prefixes, bytes, `decodeAt` of emitted bytes
    VmSimCompile `compile` produces a layout (append-only code and pool; `patch` stays inside)
    VmSimExec    the simulation for literals, identifiers, list/map/object literals, member,
                 subscript
    VmSimCall    the simulation for calls: strict (opcode, `CALL_BY_VALUE`, `DYNAMIC_CALL`),
                 `if/&&/||` as jumps, `!`, lazy host calls with thunks (`CALL_BY_NEED`)
    VmSimRefuse  on a well-annotated tree `compile` fails only with `overflow`

  What is proved here is the classical simulation theorem, for ALL expression forms the
  compiler accepts (no syntactic fragment is excluded).  The hypotheses, each of which is needed
  (see the counterexamples below):

  `WellAnnotated funs e`  (decidable, syntactic; what `types.Check` leaves on the tree):
      list/map/object literals carry their type (`[]` : `list[⊥]`, `[:]` : `map[⊥,⊥]`, an object
      type with as many fields as the literal); subscripts carry a list or map type; static
      calls resolve in `funs`, and a call resolved to a built-in has the built-in's arity and the
      registered declaration has the built-in's laziness flag; no sugar nodes.
  `KindsAgree ρ e`  (semantic; two consequences of type soundness, C01):
      whenever the operand of a subscript node evaluates, its value has the annotated kind
      (the evaluator dispatches on the value, the compiler on the annotation); whenever the callee
      of a dynamic call evaluates, the value is not a LAZY function value (the machine refuses
      `DYNAMIC_CALL` of a lazy function, the evaluator builds thunks).
  `NotStuck r`  the evaluator's outcome is a value or a documented failure, not an internal fault
      (`Fail.stuck`: unchecked cast, nil, unreachable).  C01/C02 show accepted programs never
      end in `stuck` in conforming environments; on a `stuck` outcome the two sides do differ
      (e.g. an unbound identifier: `OP_LOAD` pushes nil, the evaluator faults).

  Conclusion: with `W e + 1` units of fuel or more (an explicit bound computed from the tree),
  `run` from offset 0 on the empty stack returns exactly what `eval` returns: the same value or
  the same failure AND the same final log, i.e. the same host-function calls with the same
  rendered arguments in the same order, and the same prints.

  `refuse` / `refuse_overflow`: on a well-annotated tree `compile` fails only with `overflow`.

  Not proved here: that `vmFuel e` is below the constant `runVm` passes
  (`1000 * (totalCodeSize + 1)`; `W` also counts the never-compiled callee of a static call), a
  formal characterisation of WHICH count overflows (only stated: `overflow` is thrown exactly by
  `emitU16` / `emitU8` / `patch`), and an exhibited overflowing program.  `run` is the model of
  `switchThreading`; the second dispatch loop is tied to the same model by the harness.
-/
import Yae.Proofs.VmSimCall
import Yae.Proofs.VmSimCompile
import Yae.Proofs.VmSimRefuse
namespace Yae.C03
open Yae Yae.Vm Yae.VmSim

/-- what the checker guarantees and the compiler relies on (decidable) -/
def WellAnnotated (funs : List FunDecl) (e : Expr) : Prop := wa funs e = true

instance (funs : List FunDecl) (e : Expr) : Decidable (WellAnnotated funs e) := by
  unfold WellAnnotated; infer_instance

/-- the values that occur have the statically known kind where the compiler dispatched on it -/
def KindsAgree (ρ : REnv) (e : Expr) : Prop := KA ρ e

/-- fuel that suffices for the machine: every instruction of the main buffer and of the thunk
bodies forced along the way is counted by `W` -/
def vmFuel (e : Expr) : Nat := W e + 1

/-- **Simulation (compiler correctness).**  All expression forms; outcomes that are not internal
faults. -/
theorem vm_correct_partial {funs : List FunDecl} {e : Expr} {code : Code} {pool : Pool}
    (hc : compile funs e = .ok (code, pool)) (hw : WellAnnotated funs e)
    {ρ : REnv} (hρ : ρ.funs = funs) (hk : KindsAgree ρ e) (log : List Event)
    (hns : NotStuck (eval (e.depth + 1) false ρ e log).1)
    {F : Nat} (hF : vmFuel e ≤ F) :
    run F ρ pool code 0 [] log = eval (e.depth + 1) false ρ e log := by
  obtain ⟨ob, hlay, hret⟩ := compile_layout hc
  exact exec_correct hρ hlay hret hw hk hF log hns

/-- non-vacuity: `[x, true]` with `x` bound -/
example :
    let e : Expr := .list Pos.unknown (.cons (.ident Pos.unknown "x") (.cons (.bool Pos.unknown true) .nil))
      (some (.list .bool))
    let ρ : REnv := { vars := [("x", .bool false)], funs := [] }
    (∃ code pool, compile [] e = .ok (code, pool)) ∧ WellAnnotated [] e ∧ KindsAgree ρ e ∧
      NotStuck (eval (e.depth + 1) false ρ e []).1 :=
  by
  refine ⟨?_, by decide, ⟨trivial, trivial, trivial⟩, ?_⟩
  · simp only [compile, compileE, compileList, Expr.depth, depthList]
    exact ⟨_, _, rfl⟩
  · simp [eval, evalList, Expr.depth, depthList, REnv.lookupVar, bind_apply]

/-- **C03, first sentence, VM side**, given that evaluation never ends in an internal fault
(type soundness, C01/C02): for every log, i.e. from every history, the machine and the evaluator
return the same value or the same failure, with the same final log. -/
theorem vm_correct {funs : List FunDecl} {e : Expr} {code : Code} {pool : Pool}
    (hc : compile funs e = .ok (code, pool)) (hw : WellAnnotated funs e)
    {ρ : REnv} (hρ : ρ.funs = funs) (hk : KindsAgree ρ e)
    (hsound : ∀ log, NotStuck (eval (e.depth + 1) false ρ e log).1) :
    ∀ log F, vmFuel e ≤ F → run F ρ pool code 0 [] log = eval (e.depth + 1) false ρ e log :=
  fun log _ hF => vm_correct_partial hc hw hρ hk log (hsound log) hF

example : ∀ log, NotStuck (eval ((Expr.bool Pos.unknown true).depth + 1) false
    { vars := [], funs := [] } (.bool Pos.unknown true) log).1 := fun _ => by simp [eval, Expr.depth]

/-- the "∃ F₀, ∀ F ≥ F₀" form -/
theorem vm_correct_exists_fuel {funs : List FunDecl} {e : Expr} {code : Code} {pool : Pool}
    (hc : compile funs e = .ok (code, pool)) (hw : WellAnnotated funs e)
    {ρ : REnv} (hρ : ρ.funs = funs) (hk : KindsAgree ρ e) (log : List Event)
    (hns : NotStuck (eval (e.depth + 1) false ρ e log).1) :
    ∃ F₀, ∀ F, F₀ ≤ F → run F ρ pool code 0 [] log = eval (e.depth + 1) false ρ e log :=
  ⟨vmFuel e, fun _ hF => vm_correct_partial hc hw hρ hk log hns hF⟩

example : vmFuel (.bool Pos.unknown true) = 2 := rfl

/-- **same host calls, same order, same arguments, same prints**: the final logs coincide -/
theorem vm_same_events {funs : List FunDecl} {e : Expr} {code : Code} {pool : Pool}
    (hc : compile funs e = .ok (code, pool)) (hw : WellAnnotated funs e)
    {ρ : REnv} (hρ : ρ.funs = funs) (hk : KindsAgree ρ e) (log : List Event)
    (hns : NotStuck (eval (e.depth + 1) false ρ e log).1) {F : Nat} (hF : vmFuel e ≤ F) :
    (run F ρ pool code 0 [] log).2 = (eval (e.depth + 1) false ρ e log).2 := by
  rw [vm_correct_partial hc hw hρ hk log hns hF]

example : (eval ((Expr.bool Pos.unknown true).depth + 1) false { vars := [], funs := [] }
    (.bool Pos.unknown true) []).2 = [] := by simp [eval, Expr.depth]

/-! ### why `vm_correct` needs `NotStuck` (or a bound-identifiers hypothesis)

`OP_LOAD` pushes nil for a variable missing from the environment, the evaluator faults. -/

/-- counterexample to the statement without `NotStuck`: `x` in the empty environment -/
theorem unbound_identifier_differs :
    let e : Expr := .ident Pos.unknown "x"
    let ρ : REnv := { vars := [], funs := [] }
    ∃ code pool, compile [] e = .ok (code, pool) ∧ WellAnnotated [] e ∧ KindsAgree ρ e ∧
      run 2 ρ pool code 0 [] [] = (.ok .nil, []) ∧
      eval (e.depth + 1) false ρ e [] = (.error (.stuck "missing-var"), []) :=
  by
  intro e ρ
  refine ⟨#[UInt8.ofNat Op.LOAD.code, 0, 0, UInt8.ofNat Op.RETURN.code], #[.name "x"], ?_, by decide, trivial, ?_, ?_⟩
  · simp only [e, compile, compileE, Expr.depth]; rfl
  · rw [run_load (i := 0) (x := "x") (nx := 3) rfl rfl, run_return (nx := 4) rfl]
    rfl
  · simp [e, ρ, eval, Expr.depth, REnv.lookupVar]

/-! ### the permitted difference: refusing at compile time -/

/-- on a well-annotated tree the compiler refuses only for an encoding overflow
(`emitU16` of a constant index, member count or jump target above 65 535, `emitU8` of an argument
count above 255: the only places `CErr.overflow` is thrown) -/
theorem refuse_overflow {funs : List FunDecl} {e : Expr} {err : CErr}
    (hw : WellAnnotated funs e) (h : compile funs e = .error err) : err = .overflow :=
  compile_refuse_overflow hw h

/-- every refusal is an overflow, or the tree is not well annotated: an unresolved callee
(`notDefined`) or a node the checker never produces (`unreachable`) -/
theorem refuse {funs : List FunDecl} {e : Expr} {err : CErr} (h : compile funs e = .error err) :
    err = .overflow ∨ (err = .notDefined ∧ ¬ WellAnnotated funs e) ∨
      ((∃ w, err = .unreachable w) ∧ ¬ WellAnnotated funs e) := by
  by_cases hw : WellAnnotated funs e
  · exact Or.inl (refuse_overflow hw h)
  · cases err with
    | overflow => exact Or.inl rfl
    | notDefined => exact Or.inr (Or.inl ⟨rfl, hw⟩)
    | unreachable w => exact Or.inr (Or.inr ⟨⟨w, rfl⟩, hw⟩)

/-- non-vacuity: a sugar node is refused as unreachable, a call whose callee is not registered as
not defined; neither tree is well annotated -/
example : compile [] (.group Pos.unknown (.bool Pos.unknown true)) = .error (.unreachable "sugar") ∧
    ¬ WellAnnotated [] (.group Pos.unknown (.bool Pos.unknown true)) := by
  refine ⟨?_, by decide⟩
  simp only [compile, compileE, Expr.depth]; rfl

example : compile [] (.call Pos.unknown 0 (.ident Pos.unknown "f") .nil none "λ f ()" (-1)) =
      .error .notDefined ∧
    ¬ WellAnnotated [] (.call Pos.unknown 0 (.ident Pos.unknown "f") .nil none "λ f ()" (-1)) := by
  refine ⟨?_, by decide⟩
  simp only [compile, compileE, Expr.depth]; rfl

#print axioms vm_correct_partial
#print axioms refuse_overflow
#print axioms refuse
#print axioms vm_correct
#print axioms vm_correct_exists_fuel
#print axioms vm_same_events
#print axioms unbound_identifier_differs

end Yae.C03
