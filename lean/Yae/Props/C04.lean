/-
  C04 (the law part)
  "… tolerance-based numeric comparison, … order-preserving de-duplicating set operations,
   get / isset with defaults …"

  Laws that follow from the definitions of the built-ins (`Yae/Model/Builtins.lean`,
  `applyBuiltin`) by pure logic.  Facts about IEEE arithmetic are hypotheses (`FloatFacts`).

  Remarks on the numeric comparisons (`val/num.go`):
    numEQ x y := |x - y| < ε        numNE x y := |x - y| ≥ ε
    numLT x y := x < y && numNE x y  numLE x y := x ≤ y || numEQ x y   (GT / GE alike)
  `numNE x y = !numEQ x y` holds whenever `|x - y|` is not NaN; it FAILS when it is NaN (`x` or
  `y` NaN, or both the same infinity): then `numEQ` and `numNE` are both false, so `x == y`,
  `x != y`, `x < y`, `x > y` are all false while `x <= y` / `x >= y` hold for equal infinities.
  `Float` is opaque to the kernel, so this is stated under `F.numNE_eq_not_numEQ` for finite
  operands only and nothing is claimed for the non-finite ones.
-/
import Yae.Proofs.ValRelSet
import Yae.Proofs.ValRelGet
namespace Yae.C04
open Yae

/-! ## numeric comparison -/

theorem eq_num (ext : Externs) (x y : Float) :
    applyBuiltin ext .EQ_NUM_NUM [.num x, .num y] = .ok (.bool (numEQ x y), []) := by
  simp only [applyBuiltin]
theorem ne_num (ext : Externs) (x y : Float) :
    applyBuiltin ext .NE_NUM_NUM [.num x, .num y] = .ok (.bool (numNE x y), []) := by
  simp only [applyBuiltin]

/-- `x != y` is the negation of `x == y` on finite numbers (assumed: `F.numNE_eq_not_numEQ`). -/
theorem ne_num_eq_not_eq_num (F : FloatFacts) (ext : Externs) (x y : Float)
    (hx : Num.isFinite x = true) (hy : Num.isFinite y = true) :
    applyBuiltin ext .NE_NUM_NUM [.num x, .num y] = .ok (.bool (!numEQ x y), []) := by
  rw [ne_num, F.numNE_eq_not_numEQ x y hx hy]

/-- `<` is "less and not within tolerance", `<=` is "less-or-equal or within tolerance". -/
theorem lt_le_num (x y : Float) :
    numLT x y = (decide (x < y) && numNE x y) ∧ numLE x y = (decide (x ≤ y) || numEQ x y) ∧
    numGT x y = (decide (x > y) && numNE x y) ∧ numGE x y = (decide (x ≥ y) || numEQ x y) :=
  ⟨rfl, rfl, rfl, rfl⟩

/-- numbers within tolerance are `<=` and `>=` each other and neither `<` nor `>`
(finite operands; assumed: `F.numNE_eq_not_numEQ`). -/
theorem within_tolerance (F : FloatFacts) (x y : Float)
    (hx : Num.isFinite x = true) (hy : Num.isFinite y = true) (h : numEQ x y = true) :
    numLE x y = true ∧ numGE x y = true ∧ numLT x y = false ∧ numGT x y = false := by
  have hne : numNE x y = false := by rw [F.numNE_eq_not_numEQ x y hx hy, h]; rfl
  simp [numLE, numGE, numLT, numGT, h, hne]

/-! ## order-preserving de-duplicating set operations -/

theorem union_eq (ext : Externs) (ty ty' : Ty) (xs ys : ValList) :
    applyBuiltin ext .UNION_LIST_LIST [.list ty xs, .list ty' ys] =
      .ok (.list ty (ValList.ofList (setUnion (valSetOf xs) (valSetOf ys))), []) := by
  simp only [applyBuiltin]
theorem intersect_eq (ext : Externs) (ty ty' : Ty) (xs ys : ValList) :
    applyBuiltin ext .INTERSECT_LIST_LIST [.list ty xs, .list ty' ys] =
      .ok (.list ty (ValList.ofList (setIntersect (valSetOf xs) (valSetOf ys))), []) := by
  simp only [applyBuiltin]
theorem diff_eq (ext : Externs) (ty ty' : Ty) (xs ys : ValList) :
    applyBuiltin ext .DIFF_LIST_LIST [.list ty xs, .list ty' ys] =
      .ok (.list ty (ValList.ofList (setDiff (valSetOf xs) (valSetOf ys))), []) := by
  simp only [applyBuiltin]

/-- `valSetOf` keeps, for every rendering, the first element that has it, in order. -/
theorem valSetOf_first_occurrence (xs : ValList) :
    (valSetOf xs).map Prod.fst = (renders xs.toList).eraseDups ∧
    (∀ h, setGet (valSetOf xs) h = xs.toList.find? (fun v => v.render == h)) ∧
    (∀ e ∈ valSetOf xs, e.1 = e.2.render) :=
  ⟨valSetOf_keys xs, setGet_valSetOf xs, valSetOf_fst xs⟩

/-- Renderings of `union(xs, ys)`: first occurrences of `xs`, then the first occurrences of `ys`
not in `xs`; duplicate free; membership is "in `xs` or in `ys`". -/
theorem union_law (xs ys : ValList) :
    renders (setUnion (valSetOf xs) (valSetOf ys)) =
      (renders xs.toList).eraseDups ++
        (renders ys.toList).eraseDups.filter (fun h => decide (h ∉ renders xs.toList)) ∧
    (renders (setUnion (valSetOf xs) (valSetOf ys))).Nodup ∧
    ∀ h, h ∈ renders (setUnion (valSetOf xs) (valSetOf ys)) ↔
      h ∈ renders xs.toList ∨ h ∈ renders ys.toList :=
  ⟨renders_union xs ys, nodup_setUnion (isValSet_valSetOf xs) (isValSet_valSetOf ys),
    mem_renders_union xs ys⟩

/-- Renderings of `intersect(xs, ys)`: first occurrences of `xs` that are in `ys`, in the order of
`xs`; duplicate free; membership is "in `xs` and in `ys`".  (The values are the first such
elements of `ys`: `setIntersect_eq`.) -/
theorem intersect_law (xs ys : ValList) :
    renders (setIntersect (valSetOf xs) (valSetOf ys)) =
      (renders xs.toList).eraseDups.filter (fun h => decide (h ∈ renders ys.toList)) ∧
    (renders (setIntersect (valSetOf xs) (valSetOf ys))).Nodup ∧
    ∀ h, h ∈ renders (setIntersect (valSetOf xs) (valSetOf ys)) ↔
      h ∈ renders xs.toList ∧ h ∈ renders ys.toList :=
  ⟨renders_intersect xs ys, nodup_setIntersect (isValSet_valSetOf xs) (isValSet_valSetOf ys),
    mem_renders_intersect xs ys⟩

/-- Renderings of `diff(xs, ys)`: first occurrences of `xs` that are not in `ys`, in the order of
`xs`; duplicate free; membership is "in `xs` and not in `ys`". -/
theorem diff_law (xs ys : ValList) :
    renders (setDiff (valSetOf xs) (valSetOf ys)) =
      (renders xs.toList).eraseDups.filter (fun h => decide (h ∉ renders ys.toList)) ∧
    (renders (setDiff (valSetOf xs) (valSetOf ys))).Nodup ∧
    ∀ h, h ∈ renders (setDiff (valSetOf xs) (valSetOf ys)) ↔
      h ∈ renders xs.toList ∧ h ∉ renders ys.toList :=
  ⟨renders_diff xs ys, nodup_setDiff (isValSet_valSetOf xs), mem_renders_diff xs ys⟩

/-- a computed instance: `union(["a","b","a"], ["b","c"])` renders as `"a", "b", "c"` -/
example : renders (setUnion
    (valSetOf (.cons (.str "a") (.cons (.str "b") (.cons (.str "a") .nil))))
    (valSetOf (.cons (.str "b") (.cons (.str "c") .nil)))) = ["\"a\"", "\"b\"", "\"c\""] := by
  decide

/-! ## get / isset with defaults -/

/-- `get(m, k, d)` is the entry under `k` if there is one (and it is not a Go nil), else `d`. -/
theorem get_map (ext : Externs) (ty : Ty) (es : EntryList) (key dflt : Val) {t : Kind}
    {ks : String} (hk : key.key? = some (t, ks)) :
    applyBuiltin ext .GET_MAP_ANY_ANY [.map ty es, key, dflt] =
      .ok (orDefault (es.find? t ks) dflt, []) :=
  get_map_eq ext ty es key dflt t ks hk

/-- `isset(m, k)` says whether there is an entry under `k`. -/
theorem isset_map (ext : Externs) (ty : Ty) (es : EntryList) (key : Val) {t : Kind}
    {ks : String} (hk : key.key? = some (t, ks)) :
    applyBuiltin ext .ISSET_MAP_ANY [.map ty es, key] = .ok (.bool (es.find? t ks).isSome, []) :=
  isset_map_eq ext ty es key t ks hk

/-- `get(m, k, d) = if isset(m, k) then m[k] else d` for maps without Go-nil values (every
well-formed map). -/
theorem get_agrees_with_isset (ext : Externs) (ty : Ty) (es : EntryList) (key dflt : Val)
    {t : Kind} {ks : String} (hk : key.key? = some (t, ks))
    (hnil : ∀ e ∈ es.toList, e.2.2 ≠ .nil) :
    ∃ b, applyBuiltin ext .ISSET_MAP_ANY [.map ty es, key] = .ok (.bool b, []) ∧
      applyBuiltin ext .GET_MAP_ANY_ANY [.map ty es, key, dflt] =
        .ok ((if b then (es.find? t ks).getD dflt else dflt), []) := by
  refine ⟨(es.find? t ks).isSome, isset_map ext ty es key hk, ?_⟩
  rw [get_map ext ty es key dflt hk]
  cases h : es.find? t ks with
  | none => rfl
  | some v =>
    have := hnil _ (EntryList.find?_some_mem es t ks v h)
    simp [orDefault_some this]

example (ext : Externs) : ∃ b,
    applyBuiltin ext .ISSET_MAP_ANY
      [.map (.map .str .bool) (.cons .str "\"a\"" (.bool true) .nil), .str "a"] =
        .ok (.bool b, []) ∧
    applyBuiltin ext .GET_MAP_ANY_ANY
      [.map (.map .str .bool) (.cons .str "\"a\"" (.bool true) .nil), .str "a", .bool false] =
        .ok ((if b then ((EntryList.cons .str "\"a\"" (.bool true) .nil).find? .str
          (Num.quote "a")).getD (.bool false) else .bool false), []) :=
  get_agrees_with_isset ext _ _ (.str "a") (.bool false) rfl
    (by simp [EntryList.toList])

/-- keys are only primitives: for a well-formed key argument of primitive type `get` / `isset`
never fail (they fail with "invalid map key type" exactly when `key?` is `none`) -/
theorem key?_isSome_of_prim {v : Val} (hw : v.WF) (h : v.typeOf.isPrimitive = true) :
    v.key?.isSome = true := by
  have hl := Val.All.self hw
  cases v <;> simp only [Val.LocalWF] at hl <;> try rfl
  case list => obtain ⟨_, el, rfl⟩ := hl; simp [Val.typeOf, Ty.isPrimitive, Ty.kind, Kind.isPrimitive] at h
  case map => obtain ⟨_, _, k, v, rfl, _⟩ := hl; simp [Val.typeOf, Ty.isPrimitive, Ty.kind, Kind.isPrimitive] at h
  case obj => obtain ⟨_, fs, rfl, _⟩ := hl; simp [Val.typeOf, Ty.isPrimitive, Ty.kind, Kind.isPrimitive] at h
  case fn => obtain ⟨_, n, ps, r, rfl⟩ := hl; simp [Val.typeOf, Ty.isPrimitive, Ty.kind, Kind.isPrimitive] at h
  case just => simp [Val.typeOf, Ty.isPrimitive, Ty.kind, Kind.isPrimitive] at h
  case nothing => simp [Val.typeOf, Ty.isPrimitive, Ty.kind, Kind.isPrimitive] at h

example : (Val.str "a").key?.isSome = true :=
  key?_isSome_of_prim (by simp [Val.WF, Val.All, Val.LocalWF]) rfl

/-- `get(list, i, d)`: total; the element at index `int(i)` when that is in range (and not a Go
nil), else `d`.  (`Num.toInt` is the amd64 `int64(f)`: NaN, ±Inf, huge values give `-2^63`, hence
`d`.) -/
theorem get_list (ext : Externs) (ty : Ty) (vs : ValList) (i : Float) (dflt : Val) :
    applyBuiltin ext .GET_LIST_NUM_ANY [.list ty vs, .num i, dflt] =
      .ok ((if Num.toInt i < 0 ∨ Num.toInt i ≥ vs.length then dflt
            else orDefault (vs.get? (Num.toInt i).toNat) dflt), []) :=
  get_list_eq ext ty vs i dflt

/-- `get(maybe, d)` -/
theorem get_maybe (ext : Externs) (el : Ty) (x dflt : Val) :
    applyBuiltin ext .GET_MAYBE [.just el x, dflt] = .ok (x, []) ∧
    applyBuiltin ext .GET_MAYBE [.nothing el, dflt] = .ok (dflt, []) :=
  ⟨get_maybe_just ext el x dflt, get_maybe_nothing ext el dflt⟩

#print axioms eq_num
#print axioms ne_num
#print axioms ne_num_eq_not_eq_num
#print axioms lt_le_num
#print axioms within_tolerance
#print axioms union_eq
#print axioms intersect_eq
#print axioms diff_eq
#print axioms valSetOf_first_occurrence
#print axioms union_law
#print axioms intersect_law
#print axioms diff_law
#print axioms get_map
#print axioms isset_map
#print axioms get_agrees_with_isset
#print axioms key?_isSome_of_prim
#print axioms get_list
#print axioms get_maybe

end Yae.C04
