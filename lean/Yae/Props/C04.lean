/-
  C04 (the law part)
  "… the value returned equals the value defined by the language's semantics: IEEE double
   arithmetic, tolerance-based numeric comparison, exact string / bool / time comparison,
   rune-counted length, order-preserving de-duplicating set operations, get / isset with defaults,
   string conversion, and time literals / strtotime for absolute date-time forms.  Composite results
   match element by element."

  The bodies of the model's built-ins (`Yae/Model/Builtins.lean`, `applyBuiltin`) ARE the formal
  semantics (tied to the Go code by the differential stream over every built-in).  This file proves
  the LAWS the property names, from those definitions, by pure logic.  Facts about IEEE arithmetic
  are hypotheses (`FloatFacts`); only the first section uses them.

  Sections, and what each establishes
    numeric comparison      `==`/`!=`/`<`… on numbers are the tolerance tests (see the remark below)
    set operations          `union`/`intersect`/`diff`: first occurrences, order, membership
    get / isset             with defaults
    rune-counted length     `len` = number of code points / members / entries (`len_law`)
    string conversion       the equations of `string()` (`string_prim`, `string_list`, `string_obj`,
                            `string_map`), `string(x) = String()` on values without strings,
                            functions, maybes, out-of-order objects (`string_eq_String`), and
                            kernel-checked differences for each excluded case
    exact comparison        `==`/`!=` on strings and bools are (in)equality; on instants: seconds and
                            nanoseconds, whatever the zone; `<`… the order of instants (`time_cmp`,
                            `time_cmp_ns`).  (There is no `<` on strings or bools in the language.)
    numeric literals        radix forms exactly (`radix_literal`, value `< 2^63`, else rejected);
                            integer form = `float64` of the number written, exact below `2^53`
                            (`int_literal`, `int_literal_exact`); float forms: decomposition into
                            mantissa and decimal exponent (`float_literal`)
    string literals         item-by-item decoding of every word of the string pattern (`str_literal`),
                            raw strings (`raw_literal`)
    absolute date-times     `civilFromDays` inverts the naive day count of `Yae/Spec/Civil.lean`
                            (`civil_round_trip`, `day_round_trip`); an absolute form is displayed as
                            itself (`strtotime_absolute`, `time_literal_absolute`); the text read back
                            gives the instant (`time_text_read_back`, `time_text_reader`)

  What is NOT proved (it is the definition of the model, compared with Go by the differential
  stream): that `Num.packRound` / `Num.ratToBits` / `Num.decimalToBits` round correctly (so
  "nearest double" in the literal theorems is by definition); that `+ - * / ^` are the IEEE
  operations (`Float` is opaque); what `timelib.Strtotime` answers (a table, `Externs.strtotime`:
  `strtotime_absolute` assumes the entry is the civil epoch of the form); `Float.ofNat` in `len`.

  CORNERS made explicit (none is a violation of C04: the programs concerned are REJECTED, not
  accepted with a wrong value, or the text promises nothing about them; the Go code agrees with the
  model on each one, stream `num`), each kernel-checked here or in the helper
    * `string()`: strings inside lists / as map VALUES are bare but map KEYS keep their quotes
      (`map_keys_stay_quoted`); objects in declaration order, `String()` in name order
      (`obj_order_differs`);
    * lexemes that are not numbers for `parseNum` (syntax error): radix literals `≥ 2^63`, `1.2.3`,
      `1e2e3` (`numeric_lexemes_rejected`); integer / float literals whose `float64` is `+Inf`
      (`int_literal`, `Num.decimalToBits` answering `none`);
    * string literals of the documented grammar rejected by `strconv.Unquote`: `\/`, a raw newline,
      `\uD800..\uDFFF` (`str_literal_rejected`: exactly these);
    * raw strings are NOT verbatim: carriage returns are dropped (`raw_literal_verbatim`: only that);
    * the calendar is wrong before 0000-03-01 (`civil_round_trip_fails_before_march_0`, the known
      limit `C18.needs_date_from_march_of_year_0`).

  Remarks on the numeric comparisons (`val/num.go`):
    numEQ x y := |x - y| < ε        numNE x y := |x - y| ≥ ε
    numLT x y := x < y && numNE x y  numLE x y := x ≤ y || numEQ x y   (GT / GE alike)
  `numNE x y = !numEQ x y` holds whenever `|x - y|` is not NaN; it FAILS when it is NaN (`x` or
  `y` NaN, or both the same infinity): then `numEQ` and `numNE` are both false, so `x == y`,
  `x != y`, `x < y`, `x > y` are all false while `x <= y` / `x >= y` hold for equal infinities.
  `Float` is opaque to the kernel, so this is stated under `F.numNE_eq_not_numEQ` for finite
  operands only and nothing is claimed for the non-finite ones.
-/
import Yae.Proofs.ValRelSet
import Yae.Proofs.ValRelGet
import Yae.Proofs.C04Stringify
import Yae.Proofs.C04TimeRead
import Yae.Proofs.C04Num
import Yae.Proofs.C04Str
import Yae.Model.Eval
namespace Yae.C04
open Yae

/-! ## numeric comparison -/

theorem eq_num (ext : Externs) (x y : Float) :
    applyBuiltin ext .EQ_NUM_NUM [.num x, .num y] = .ok (.bool (numEQ x y), []) := by
  simp only [applyBuiltin]
theorem ne_num (ext : Externs) (x y : Float) :
    applyBuiltin ext .NE_NUM_NUM [.num x, .num y] = .ok (.bool (numNE x y), []) := by
  simp only [applyBuiltin]

/-- `x != y` is the negation of `x == y` on finite numbers (assumed: `F.numNE_eq_not_numEQ`). -/
theorem ne_num_eq_not_eq_num (F : FloatFacts) (ext : Externs) (x y : Float)
    (hx : Num.isFinite x = true) (hy : Num.isFinite y = true) :
    applyBuiltin ext .NE_NUM_NUM [.num x, .num y] = .ok (.bool (!numEQ x y), []) := by
  rw [ne_num, F.numNE_eq_not_numEQ x y hx hy]

/-- `<` is "less and not within tolerance", `<=` is "less-or-equal or within tolerance". -/
theorem lt_le_num (x y : Float) :
    numLT x y = (decide (x < y) && numNE x y) ∧ numLE x y = (decide (x ≤ y) || numEQ x y) ∧
    numGT x y = (decide (x > y) && numNE x y) ∧ numGE x y = (decide (x ≥ y) || numEQ x y) :=
  ⟨rfl, rfl, rfl, rfl⟩

/-- numbers within tolerance are `<=` and `>=` each other and neither `<` nor `>`
(finite operands; assumed: `F.numNE_eq_not_numEQ`). -/
theorem within_tolerance (F : FloatFacts) (x y : Float)
    (hx : Num.isFinite x = true) (hy : Num.isFinite y = true) (h : numEQ x y = true) :
    numLE x y = true ∧ numGE x y = true ∧ numLT x y = false ∧ numGT x y = false := by
  have hne : numNE x y = false := by rw [F.numNE_eq_not_numEQ x y hx hy, h]; rfl
  simp [numLE, numGE, numLT, numGT, h, hne]

/-! ## order-preserving de-duplicating set operations -/

theorem union_eq (ext : Externs) (ty ty' : Ty) (xs ys : ValList) :
    applyBuiltin ext .UNION_LIST_LIST [.list ty xs, .list ty' ys] =
      .ok (.list ty (ValList.ofList (setUnion (valSetOf xs) (valSetOf ys))), []) := by
  simp only [applyBuiltin]
theorem intersect_eq (ext : Externs) (ty ty' : Ty) (xs ys : ValList) :
    applyBuiltin ext .INTERSECT_LIST_LIST [.list ty xs, .list ty' ys] =
      .ok (.list ty (ValList.ofList (setIntersect (valSetOf xs) (valSetOf ys))), []) := by
  simp only [applyBuiltin]
theorem diff_eq (ext : Externs) (ty ty' : Ty) (xs ys : ValList) :
    applyBuiltin ext .DIFF_LIST_LIST [.list ty xs, .list ty' ys] =
      .ok (.list ty (ValList.ofList (setDiff (valSetOf xs) (valSetOf ys))), []) := by
  simp only [applyBuiltin]

/-- `valSetOf` keeps, for every rendering, the first element that has it, in order. -/
theorem valSetOf_first_occurrence (xs : ValList) :
    (valSetOf xs).map Prod.fst = (renders xs.toList).eraseDups ∧
    (∀ h, setGet (valSetOf xs) h = xs.toList.find? (fun v => v.render == h)) ∧
    (∀ e ∈ valSetOf xs, e.1 = e.2.render) :=
  ⟨valSetOf_keys xs, setGet_valSetOf xs, valSetOf_fst xs⟩

/-- Renderings of `union(xs, ys)`: first occurrences of `xs`, then the first occurrences of `ys`
not in `xs`; duplicate free; membership is "in `xs` or in `ys`". -/
theorem union_law (xs ys : ValList) :
    renders (setUnion (valSetOf xs) (valSetOf ys)) =
      (renders xs.toList).eraseDups ++
        (renders ys.toList).eraseDups.filter (fun h => decide (h ∉ renders xs.toList)) ∧
    (renders (setUnion (valSetOf xs) (valSetOf ys))).Nodup ∧
    ∀ h, h ∈ renders (setUnion (valSetOf xs) (valSetOf ys)) ↔
      h ∈ renders xs.toList ∨ h ∈ renders ys.toList :=
  ⟨renders_union xs ys, nodup_setUnion (isValSet_valSetOf xs) (isValSet_valSetOf ys),
    mem_renders_union xs ys⟩

/-- Renderings of `intersect(xs, ys)`: first occurrences of `xs` that are in `ys`, in the order of
`xs`; duplicate free; membership is "in `xs` and in `ys`".  (The values are the first such
elements of `ys`: `setIntersect_eq`.) -/
theorem intersect_law (xs ys : ValList) :
    renders (setIntersect (valSetOf xs) (valSetOf ys)) =
      (renders xs.toList).eraseDups.filter (fun h => decide (h ∈ renders ys.toList)) ∧
    (renders (setIntersect (valSetOf xs) (valSetOf ys))).Nodup ∧
    ∀ h, h ∈ renders (setIntersect (valSetOf xs) (valSetOf ys)) ↔
      h ∈ renders xs.toList ∧ h ∈ renders ys.toList :=
  ⟨renders_intersect xs ys, nodup_setIntersect (isValSet_valSetOf xs) (isValSet_valSetOf ys),
    mem_renders_intersect xs ys⟩

/-- Renderings of `diff(xs, ys)`: first occurrences of `xs` that are not in `ys`, in the order of
`xs`; duplicate free; membership is "in `xs` and not in `ys`". -/
theorem diff_law (xs ys : ValList) :
    renders (setDiff (valSetOf xs) (valSetOf ys)) =
      (renders xs.toList).eraseDups.filter (fun h => decide (h ∉ renders ys.toList)) ∧
    (renders (setDiff (valSetOf xs) (valSetOf ys))).Nodup ∧
    ∀ h, h ∈ renders (setDiff (valSetOf xs) (valSetOf ys)) ↔
      h ∈ renders xs.toList ∧ h ∉ renders ys.toList :=
  ⟨renders_diff xs ys, nodup_setDiff (isValSet_valSetOf xs), mem_renders_diff xs ys⟩

/-- a computed instance: `union(["a","b","a"], ["b","c"])` renders as `"a", "b", "c"` -/
example : renders (setUnion
    (valSetOf (.cons (.str "a") (.cons (.str "b") (.cons (.str "a") .nil))))
    (valSetOf (.cons (.str "b") (.cons (.str "c") .nil)))) = ["\"a\"", "\"b\"", "\"c\""] := by
  decide

/-! ## get / isset with defaults -/

/-- `get(m, k, d)` is the entry under `k` if there is one (and it is not a Go nil), else `d`. -/
theorem get_map (ext : Externs) (ty : Ty) (es : EntryList) (key dflt : Val) {t : Kind}
    {ks : String} (hk : key.key? = some (t, ks)) :
    applyBuiltin ext .GET_MAP_ANY_ANY [.map ty es, key, dflt] =
      .ok (orDefault (es.find? t ks) dflt, []) :=
  get_map_eq ext ty es key dflt t ks hk

/-- `isset(m, k)` says whether there is an entry under `k`. -/
theorem isset_map (ext : Externs) (ty : Ty) (es : EntryList) (key : Val) {t : Kind}
    {ks : String} (hk : key.key? = some (t, ks)) :
    applyBuiltin ext .ISSET_MAP_ANY [.map ty es, key] = .ok (.bool (es.find? t ks).isSome, []) :=
  isset_map_eq ext ty es key t ks hk

/-- `get(m, k, d) = if isset(m, k) then m[k] else d` for maps without Go-nil values (every
well-formed map). -/
theorem get_agrees_with_isset (ext : Externs) (ty : Ty) (es : EntryList) (key dflt : Val)
    {t : Kind} {ks : String} (hk : key.key? = some (t, ks))
    (hnil : ∀ e ∈ es.toList, e.2.2 ≠ .nil) :
    ∃ b, applyBuiltin ext .ISSET_MAP_ANY [.map ty es, key] = .ok (.bool b, []) ∧
      applyBuiltin ext .GET_MAP_ANY_ANY [.map ty es, key, dflt] =
        .ok ((if b then (es.find? t ks).getD dflt else dflt), []) := by
  refine ⟨(es.find? t ks).isSome, isset_map ext ty es key hk, ?_⟩
  rw [get_map ext ty es key dflt hk]
  cases h : es.find? t ks with
  | none => rfl
  | some v =>
    have := hnil _ (EntryList.find?_some_mem es t ks v h)
    simp [orDefault_some this]

example (ext : Externs) : ∃ b,
    applyBuiltin ext .ISSET_MAP_ANY
      [.map (.map .str .bool) (.cons .str "\"a\"" (.bool true) .nil), .str "a"] =
        .ok (.bool b, []) ∧
    applyBuiltin ext .GET_MAP_ANY_ANY
      [.map (.map .str .bool) (.cons .str "\"a\"" (.bool true) .nil), .str "a", .bool false] =
        .ok ((if b then ((EntryList.cons .str "\"a\"" (.bool true) .nil).find? .str
          (Num.quote "a")).getD (.bool false) else .bool false), []) :=
  get_agrees_with_isset ext _ _ (.str "a") (.bool false) rfl
    (by simp [EntryList.toList])

/-- keys are only primitives: for a well-formed key argument of primitive type `get` / `isset`
never fail (they fail with "invalid map key type" exactly when `key?` is `none`) -/
theorem key?_isSome_of_prim {v : Val} (hw : v.WF) (h : v.typeOf.isPrimitive = true) :
    v.key?.isSome = true := by
  have hl := Val.All.self hw
  cases v <;> simp only [Val.LocalWF] at hl <;> try rfl
  case list => obtain ⟨_, el, rfl⟩ := hl; simp [Val.typeOf, Ty.isPrimitive, Ty.kind, Kind.isPrimitive] at h
  case map => obtain ⟨_, _, k, v, rfl, _⟩ := hl; simp [Val.typeOf, Ty.isPrimitive, Ty.kind, Kind.isPrimitive] at h
  case obj => obtain ⟨_, fs, rfl, _⟩ := hl; simp [Val.typeOf, Ty.isPrimitive, Ty.kind, Kind.isPrimitive] at h
  case fn => obtain ⟨_, n, ps, r, rfl⟩ := hl; simp [Val.typeOf, Ty.isPrimitive, Ty.kind, Kind.isPrimitive] at h
  case just => simp [Val.typeOf, Ty.isPrimitive, Ty.kind, Kind.isPrimitive] at h
  case nothing => simp [Val.typeOf, Ty.isPrimitive, Ty.kind, Kind.isPrimitive] at h

example : (Val.str "a").key?.isSome = true :=
  key?_isSome_of_prim (by simp [Val.WF, Val.All, Val.LocalWF]) rfl

/-- `get(list, i, d)`: total; the element at index `int(i)` when that is in range (and not a Go
nil), else `d`.  (`Num.toInt` is the amd64 `int64(f)`: NaN, ±Inf, huge values give `-2^63`, hence
`d`.) -/
theorem get_list (ext : Externs) (ty : Ty) (vs : ValList) (i : Float) (dflt : Val) :
    applyBuiltin ext .GET_LIST_NUM_ANY [.list ty vs, .num i, dflt] =
      .ok ((if Num.toInt i < 0 ∨ Num.toInt i ≥ vs.length then dflt
            else orDefault (vs.get? (Num.toInt i).toNat) dflt), []) :=
  get_list_eq ext ty vs i dflt

/-- `get(maybe, d)` -/
theorem get_maybe (ext : Externs) (el : Ty) (x dflt : Val) :
    applyBuiltin ext .GET_MAYBE [.just el x, dflt] = .ok (x, []) ∧
    applyBuiltin ext .GET_MAYBE [.nothing el, dflt] = .ok (dflt, []) :=
  ⟨get_maybe_just ext el x dflt, get_maybe_nothing ext el dflt⟩

/-! ## rune-counted length -/

theorem valList_length : ∀ vs : ValList, vs.length = vs.toList.length
  | .nil => rfl
  | .cons _ vs => by simp [ValList.length, ValList.toList, valList_length vs]
theorem entryList_length : ∀ es : EntryList, es.length = es.toList.length
  | .nil => rfl
  | .cons _ _ _ es => by simp [EntryList.length, EntryList.toList, entryList_length es]

/-- `len(s)` of a string is the number of its Unicode code points (`String.length` = the length
of the list of `Char`s), whatever their UTF-8 size; `len` of a list / map is the number of
members / entries. -/
theorem len_law (ext : Externs) :
    (∀ s : String, applyBuiltin ext .LEN_STR [.str s] = .ok (.num (Float.ofNat s.toList.length), [])) ∧
    (∀ ty vs, applyBuiltin ext .LEN_LIST [.list ty vs] = .ok (.num (Float.ofNat vs.toList.length), [])) ∧
    (∀ ty es, applyBuiltin ext .LEN_MAP [.map ty es] = .ok (.num (Float.ofNat es.toList.length), [])) := by
  have hl := valList_length
  have he := entryList_length
  refine ⟨fun s => ?_, fun ty vs => ?_, fun ty es => ?_⟩
  · simp only [applyBuiltin, String.length_toList]
  · simp only [applyBuiltin, hl]
  · simp only [applyBuiltin, he]

/-- the count is additive on concatenation and 1 for every single character, also one that takes
four bytes in UTF-8 -/
theorem len_runes (s t : String) (c : Char) :
    (s ++ t).length = s.length + t.length ∧ (String.singleton c).length = 1 := by
  refine ⟨String.length_append s t, ?_⟩
  rw [← String.length_toList]; simp

/-- never the UTF-8 byte count: `len("中文é")` is 3, the text is 8 bytes long -/
example : "中文é".length = 3 ∧ "中文é".utf8ByteSize = 8 ∧ "中文é".toList.length = 3 := by decide
example (ext : Externs) :
    applyBuiltin ext .LEN_STR [.str "中文é"] = .ok (.num (Float.ofNat "中文é".toList.length), []) :=
  (len_law ext).1 _

/-! ## string conversion -/

/-- `string(x)` is `fun.stringify` -/
theorem string_builtin (ext : Externs) (x : Val) :
    applyBuiltin ext .STRING_ANY [x] = .ok (.str x.stringify, []) := by
  simp only [applyBuiltin]

/-- of a string: the string itself (no quotes); of a bool: `true` / `false`; of a number: its
rendering `renderNum` (integer-valued inside the int64 range: `FormatInt`, else the shortest
round-trip `FormatFloat(x,'f',-1,64)`); of an instant: `Time.String()` -/
theorem string_prim (s : String) (x : Float) (t : TimeV) :
    (Val.str s).stringify = s ∧ (Val.bool true).stringify = "true" ∧
    (Val.bool false).stringify = "false" ∧ (Val.num x).stringify = Num.renderNum x ∧
    (Val.time t).stringify = t.render :=
  ⟨rfl, rfl, rfl, rfl, rfl⟩

/-- of a list: the members' conversions separated by `, ` in brackets (strings inside are NOT
quoted: the recursion is `stringify` itself); e.g. `string([a, b]) = "[" a ", " b "]"` -/
theorem string_list (ty : Ty) (vs : ValList) (a b : Val) :
    Val.stringify (.list ty vs) = "[" ++ ", ".intercalate (vs.toList.map Val.stringify) ++ "]" ∧
    Val.stringify (.list ty (.cons a (.cons b .nil))) =
      "[" ++ a.stringify ++ ", " ++ b.stringify ++ "]" ∧
    Val.stringify (.list ty .nil) = "[]" :=
  ⟨stringify_list ty vs, stringify_list_two ty a b, by simp [Val.stringify, stringifyVals, joinStr]⟩

/-- of an object: `name: conversion` of the fields in DECLARATION order, in braces -/
theorem string_obj (fs : FieldList) (vs : ValList) :
    Val.stringify (.obj (.obj fs) vs) =
      "{" ++ ", ".intercalate ((List.zip fs.names (vs.toList.map Val.stringify)).map
        fun kv => kv.1 ++ ": " ++ kv.2) ++ "}" :=
  stringify_obj fs vs

/-- of a map: `[:]` when empty, else `key text: conversion` of the entries sorted by key text
(the key text is `Key()`: string keys ARE quoted there, `map_keys_stay_quoted`) -/
theorem string_map (ty : Ty) (es : EntryList) :
    Val.stringify (.map ty es) =
      if es.toList = [] then "[:]" else
        "[" ++ ", ".intercalate ((sortBy (fun a b => decide (a.1 < b.1))
          (es.toList.map fun e => (e.2.1, e.2.2.stringify))).map fun kv => kv.1 ++ ": " ++ kv.2)
          ++ "]" :=
  stringify_map' ty es

/-- **`string(x)` and `(*Val).String()` coincide** on values hereditarily free of strings,
function values, maybes and objects whose fields are not declared in name order
(`Val.LocalSameText`); they differ in each of these cases: `string_not_quoted`,
`obj_order_differs`, `maybe_fn_differ`. -/
theorem string_eq_String (v : Val) (h : v.All Val.LocalSameText) : v.stringify = v.render :=
  stringify_eq_render v h

/-! ## exact comparison of strings, bools and instants -/

/-- `==` / `!=` on strings and bools: equality, and its negation -/
theorem eq_ne_exact (ext : Externs) :
    (∀ x y : String, applyBuiltin ext .EQ_STR_STR [.str x, .str y] = .ok (.bool (decide (x = y)), []) ∧
      applyBuiltin ext .NE_STR_STR [.str x, .str y] = .ok (.bool (!decide (x = y)), [])) ∧
    (∀ x y : Bool, applyBuiltin ext .EQ_BOOL_BOOL [.bool x, .bool y] = .ok (.bool (decide (x = y)), []) ∧
      applyBuiltin ext .NE_BOOL_BOOL [.bool x, .bool y] = .ok (.bool (!decide (x = y)), [])) := by
  refine ⟨fun x y => ⟨?_, ?_⟩, fun x y => ⟨?_, ?_⟩⟩
  · simp only [applyBuiltin]; rfl
  · simp only [applyBuiltin]; rfl
  · simp only [applyBuiltin]; cases x <;> cases y <;> rfl
  · simp only [applyBuiltin]; cases x <;> cases y <;> rfl

/-- the instant of a time value in nanoseconds since the epoch -/
def instantNs (t : TimeV) : Int := t.sec * 1000000000 + t.nsec

/-- the comparisons of instants: `==` is equality of seconds and nanoseconds, `<` their
lexicographic order; zone offset and zone name play no part.  `!=` is the negation of `==`,
`<=` is "`<` or `==`", `>` / `>=` are `<` / `<=` with the operands exchanged. -/
theorem time_cmp (ext : Externs) (x y : TimeV) :
    applyBuiltin ext .EQ_TIME_TIME [.time x, .time y] =
      .ok (.bool (decide (x.sec = y.sec ∧ x.nsec = y.nsec)), []) ∧
    applyBuiltin ext .NE_TIME_TIME [.time x, .time y] =
      .ok (.bool (!decide (x.sec = y.sec ∧ x.nsec = y.nsec)), []) ∧
    applyBuiltin ext .LT_TIME_TIME [.time x, .time y] =
      .ok (.bool (decide (x.sec < y.sec ∨ (x.sec = y.sec ∧ x.nsec < y.nsec))), []) ∧
    applyBuiltin ext .LE_TIME_TIME [.time x, .time y] =
      .ok (.bool (decide (x.sec < y.sec ∨ (x.sec = y.sec ∧ x.nsec ≤ y.nsec))), []) ∧
    applyBuiltin ext .GT_TIME_TIME [.time x, .time y] =
      .ok (.bool (decide (y.sec < x.sec ∨ (y.sec = x.sec ∧ y.nsec < x.nsec))), []) ∧
    applyBuiltin ext .GE_TIME_TIME [.time x, .time y] =
      .ok (.bool (decide (y.sec < x.sec ∨ (y.sec = x.sec ∧ y.nsec ≤ x.nsec))), []) := by
  refine ⟨?_, ?_, ?_, ?_, ?_, ?_⟩ <;> simp only [applyBuiltin] <;> congr 3 <;>
    simp only [TimeV.equal, TimeV.after, TimeV.before] <;>
    rw [Bool.eq_iff_iff] <;> simp <;> omega

/-- with nanoseconds below `10^9` (every time value the evaluator builds) the order is the order
of the instants counted in nanoseconds -/
theorem time_cmp_ns (ext : Externs) (x y : TimeV) (hx : x.nsec < 1000000000)
    (hy : y.nsec < 1000000000) :
    applyBuiltin ext .EQ_TIME_TIME [.time x, .time y] =
      .ok (.bool (decide (instantNs x = instantNs y)), []) ∧
    applyBuiltin ext .LT_TIME_TIME [.time x, .time y] =
      .ok (.bool (decide (instantNs x < instantNs y)), []) ∧
    applyBuiltin ext .LE_TIME_TIME [.time x, .time y] =
      .ok (.bool (decide (instantNs x ≤ instantNs y)), []) ∧
    applyBuiltin ext .GT_TIME_TIME [.time x, .time y] =
      .ok (.bool (decide (instantNs x > instantNs y)), []) ∧
    applyBuiltin ext .GE_TIME_TIME [.time x, .time y] =
      .ok (.bool (decide (instantNs x ≥ instantNs y)), []) := by
  obtain ⟨h1, _, h3, h4, h5, h6⟩ := time_cmp ext x y
  rw [h1, h3, h4, h5, h6]
  unfold instantNs
  refine ⟨?_, ?_, ?_, ?_, ?_⟩ <;> congr 3 <;> rw [decide_eq_decide] <;> omega

/-- noon UTC and 14:00 at +02:00 are `==` (and neither `<` the other): the zone is not compared -/
example (ext : Externs) :
    applyBuiltin ext .EQ_TIME_TIME [.time ⟨43200, 0, 0, "UTC"⟩, .time ⟨43200, 0, 7200, "CEST"⟩] =
      .ok (.bool true, []) ∧
    applyBuiltin ext .LT_TIME_TIME [.time ⟨43200, 0, 0, "UTC"⟩, .time ⟨43200, 0, 7200, "CEST"⟩] =
      .ok (.bool false, []) ∧
    applyBuiltin ext .LT_TIME_TIME [.time ⟨43200, 5, 0, "UTC"⟩, .time ⟨43200, 6, 7200, "CEST"⟩] =
      .ok (.bool true, []) := by
  refine ⟨?_, ?_, ?_⟩ <;> simp [applyBuiltin, TimeV.equal, TimeV.before]

/-! ## numeric literal decoding (`parseNum`, the `.num` nud of the parser) -/

/-- **radix forms, exactly**: `0x` / `0b` / `0o` followed by digits of that base denotes
`float64(v)`, `v` the positional value of the digits (`Num.valueInBase`), when `v < 2^63`; from
`2^63` on the literal is REJECTED (`strconv.ParseInt` range error; a finding: such a word is a
lexeme of the pattern, `Num.radix_overflow_instance`).  `Num.intToFloat v` is the model's
`float64(v)`: the nearest binary64, ties to even, by definition (`Num.packRound`). -/
theorem radix_literal {letter : Char} {base : Nat} (hl : Num.radixOf letter base)
    {ds : List Char} (h : Num.digitsOK base ds) :
    Num.parseNumLit (String.ofList ('0' :: letter :: ds)) =
      if Num.valueInBase base ds < 2 ^ 63 then some (Num.intToFloat (Num.valueInBase base ds))
      else none :=
  Num.parseNumLit_radix hl h

/-- below `2^53` nothing is rounded: the double the literal denotes converts to the int64 `v` and
prints as `v` in decimal -/
theorem radix_literal_exact {letter : Char} {base : Nat} (hl : Num.radixOf letter base)
    {ds : List Char} (h : Num.digitsOK base ds) (hv : Num.valueInBase base ds < 2 ^ 53) :
    ∃ b, Num.parseNumLitBits (String.ofList ('0' :: letter :: ds)) = some b ∧
      Num.toInt64Bits b = Num.valueInBase base ds ∧
      Num.renderNumBits b = Num.fmtNat (Num.valueInBase base ds) :=
  Num.radix_exact hl h hv

/-- every word of the three radix patterns of the lexer has the shape `radix_literal` speaks of -/
theorem radix_lexemes {w : List Char} :
    ((reOf .hex).Matches w → ∃ ds, w = '0' :: 'x' :: ds ∧ Num.digitsOK 16 ds) ∧
    ((reOf .bin).Matches w → ∃ ds, w = '0' :: 'b' :: ds ∧ Num.digitsOK 2 ds) ∧
    ((reOf .oct).Matches w → ∃ ds, w = '0' :: 'o' :: ds ∧ Num.digitsOK 8 ds) :=
  ⟨Num.hex_shape, Num.bin_shape, Num.oct_shape⟩

example : Num.parseNumLit "0xff" = some (Num.intToFloat 255) := by
  have := radix_literal (letter := 'x') (base := 16) (.inl ⟨rfl, rfl⟩) (ds := ['f', 'f']) (by decide)
  rw [if_pos (by decide)] at this
  exact this

/-- **the integer form** `(?:0|[1-9][0-9]*)`: every word `w` of the pattern denotes
`float64(n)`, `n = Num.digitsVal w` the number written, i.e. (by definition of the model,
`Num.natToBits n = Num.packRound n false 0`) the binary64 nearest to `n`, ties to even; it is
rejected when that is `+Inf` (numbers from about 1.8·10^308 on).  Correct rounding itself is the
DEFINITION of `packRound`, tied to Go by the differential stream, not a theorem here. -/
theorem int_literal {w : List Char} (h : (reOf .int).Matches w) :
    Num.parseNumLitBits (String.ofList w) =
      if Num.natToBits (Num.digitsVal w) = Num.infBits then none
      else some (Num.natToBits (Num.digitsVal w)) :=
  Num.int_lexeme_value h

/-- below `2^53` the integer literal is exact: the double converts to the int64 `n`, prints as `n`,
and is `float64(n)` -/
theorem int_literal_exact (ds : List Char) (hne : ds ≠ []) (hds : ∀ c ∈ ds, Num.isDigit c = true)
    (hv : Num.digitsVal ds < 2 ^ 53) :
    Num.parseNumLit (String.ofList ds) = some (Num.intToFloat (Num.digitsVal ds)) ∧
    ∃ b, Num.parseNumLitBits (String.ofList ds) = some b ∧
      Num.toInt64Bits b = Num.digitsVal ds ∧ Num.renderNumBits b = Num.fmtNat (Num.digitsVal ds) :=
  ⟨Num.parseNumLit_digits_small ds hne hds hv, Num.digits_exact ds hne hds hv⟩

/-- … and the decimal text yae prints for an integer below `2^53` reads back as the same double -/
theorem int_literal_round_trip (n : Nat) (h : n < 2 ^ 53) :
    Num.parseNumLitBits (Num.renderNumBits (Num.natToBits n)) = some (Num.natToBits n) :=
  Num.parseNumLitBits_render_roundtrip n h

example : Num.parseNumLitBits "12" = some (Num.natToBits 12) ∧
    Num.toInt64Bits (Num.natToBits 12) = 12 :=
  ⟨Num.parseNumLitBits_digits_small ['1', '2'] (by simp) (by decide) (by decide), by decide⟩

/-- **the two float forms**: `i.f`, `iE±x`, `i.fE±x` (`i`, `f`, `x` digit strings) denote
`Num.decimalToBits m e` with mantissa `m` = the digits of `i` and `f` read as one number and
decimal exponent `e = ±x - |f|` (`x` capped at 100000): the model's nearest binary64 of `m·10^e`
(`none` = overflow = rejected).  This is the decomposition; that `decimalToBits` rounds correctly
is its definition (`packRound` / `ratToBits`), not proved here. -/
theorem float_literal (ip fp : List Char) (e : Char) (sgn es : List Char)
    (hip : ∀ x ∈ ip, Num.isDigit x = true) (hne : ip ≠ []) (hfp : ∀ x ∈ fp, Num.isDigit x = true)
    (he : e = 'e' ∨ e = 'E') (hs : sgn = [] ∨ sgn = ['+'] ∨ sgn = ['-'])
    (hes : ∀ x ∈ es, Num.isDigit x = true) (hes0 : es ≠ []) :
    Num.parseNumLitBits (String.ofList (ip ++ '.' :: fp))
        = Num.decimalToBits (Num.digitsVal (ip ++ fp)) (-(fp.length : Int))
    ∧ Num.parseNumLitBits (String.ofList (ip ++ e :: (sgn ++ es)))
        = Num.decimalToBits (Num.digitsVal ip) (Num.signedExp sgn es)
    ∧ Num.parseNumLitBits (String.ofList (ip ++ '.' :: (fp ++ e :: (sgn ++ es))))
        = Num.decimalToBits (Num.digitsVal (ip ++ fp)) (Num.signedExp sgn es - (fp.length : Int)) :=
  Num.parseNumLitBits_float ip fp e sgn es hip hne hfp he hs hes hes0

example : Num.parseNumLitBits "2.50E-3" = Num.decimalToBits 250 (-5) :=
  (float_literal ['2'] ['5', '0'] 'E' ['-'] ['3'] (by decide) (by decide) (by decide)
    (by decide) (by decide) (by decide) (by decide)).2.2

/-- FINDINGS (kernel-checked): words of the numeric patterns that `parseNum` rejects, so the
program is a syntax error: a radix literal `≥ 2^63`, a second fraction group, a second exponent
group (the patterns `(?:[.][0-9]+)+`, `(?:[eE][-+]?[0-9]+)+` repeat their groups). -/
theorem numeric_lexemes_rejected :
    ((reOf .hex).Matches "0x8000000000000000".toList ∧
      Num.parseNumLitBits "0x8000000000000000" = none) ∧
    ((reOf .floatA).Matches "1.2.3".toList ∧ Num.parseNumLitBits "1.2.3" = none) ∧
    ((reOf .floatB).Matches "1e2e3".toList ∧ Num.parseNumLitBits "1e2e3" = none) :=
  ⟨Num.radix_overflow_instance, ⟨Num.float_reject_instances.1, Num.float_reject_instances.2.1⟩,
    ⟨Num.float_reject_instances.2.2.1, Num.float_reject_instances.2.2.2⟩⟩

/-! ## string literal decoding (`strconv.Unquote`, the `.str` nud of the parser) -/

/-- **interpreted strings, item by item.**  Every word of the string pattern is `"` items `"`,
the items being plain characters (not `"`, not `\`), simple escapes `\e` and `\uXXXX`
(`Num.StrItem`), and it decodes to the concatenation of what the items denote
(`Num.StrItem.val`: a plain character itself; `\"` `"`, `\\` `\`, `\t` TAB, `\r` CR, `\n` LF,
`\b` BS, `\f` FF; `\uXXXX` the code point `XXXX`) — or to nothing, when some item denotes nothing:
a raw newline, `\/`, a surrogate `\uD800..\uDFFF` (`str_literal_rejected`). -/
theorem str_literal {w : List Char} (h : (reOf .str).Matches w) :
    ∃ items : List Num.StrItem, (∀ i ∈ items, i.ok) ∧ w = '"' :: Num.srcOf items ++ ['"'] ∧
      Num.unquote (String.ofList w) = (Num.decodeItems items).map String.ofList :=
  Num.unquote_of_str_matches h

/-- the items, given directly -/
theorem str_literal_items (items : List Num.StrItem) (hok : ∀ i ∈ items, i.ok) :
    Num.unquote (String.ofList ('"' :: Num.srcOf items ++ ['"'])) =
      (Num.decodeItems items).map String.ofList :=
  Num.unquote_items items hok

/-- an escape-free body decodes to itself -/
theorem str_literal_plain (body : List Char) (h : ∀ c ∈ body, c ≠ '"' ∧ c ≠ '\\' ∧ c ≠ '\n') :
    Num.unquote (String.ofList ('"' :: body ++ ['"'])) = some (String.ofList body) :=
  Num.unquote_plain body h

/-- one escape in context: what is before and after it decodes independently -/
theorem str_literal_escape (pre post : List Num.StrItem) (hpre : ∀ i ∈ pre, i.ok)
    (hpost : ∀ i ∈ post, i.ok) (e c : Char) (he : Num.escVal e = some c) :
    Num.unquote (String.ofList ('"' :: Num.srcOf pre ++ '\\' :: e :: Num.srcOf post ++ ['"'])) =
      (do let x ← Num.decodeItems pre; let y ← Num.decodeItems post
          pure (String.ofList (x ++ c :: y))) :=
  Num.unquote_esc_context pre post hpre hpost e c he

/-- every escape of the grammar, on the model (kernel-checked) -/
example : Num.unquote "\"a\\tb\"" = some "a\tb" ∧ Num.unquote "\"a\\rb\"" = some "a\rb" ∧
    Num.unquote "\"a\\nb\"" = some "a\nb" ∧ Num.unquote "\"a\\\"b\"" = some "a\"b" ∧
    Num.unquote "\"a\\\\b\"" = some "a\\b" ∧ Num.unquote "\"\\u4e2d\\u0041\"" = some "中A" := by
  decide

/-- FINDING: a literal of the documented grammar is rejected (syntax error) exactly when it
contains `\/`, a raw newline or a `\u` surrogate -/
theorem str_literal_rejected (items : List Num.StrItem) (hok : ∀ i ∈ items, i.ok) :
    Num.unquote (String.ofList ('"' :: Num.srcOf items ++ ['"'])) = none ↔
      .plain '\n' ∈ items ∨ .esc '/' ∈ items ∨
      ∃ h1 h2 h3 h4, .uni h1 h2 h3 h4 ∈ items ∧ 0xD800 ≤ Num.hex4 h1 h2 h3 h4 ∧
        Num.hex4 h1 h2 h3 h4 ≤ 0xDFFF :=
  Num.unquote_none_iff items hok

example : Num.unquote "\"\\/\"" = none ∧ Num.unquote "\"a\nb\"" = none ∧
    Num.unquote "\"\\ud800\"" = none := by decide

/-- **raw strings**: every word of the raw pattern is a body free of back quotes between back
quotes, and decodes to the body WITHOUT ITS CARRIAGE RETURNS (no escape processing).  "Verbatim"
holds exactly for bodies without `\r` (`raw_literal_verbatim`). -/
theorem raw_literal {w : List Char} (h : (reOf .raw).Matches w) :
    ∃ body, w = '`' :: body ++ ['`'] ∧
      Num.unquote (String.ofList w) = some (String.ofList (body.filter (· != '\r'))) :=
  Num.unquote_of_raw_matches h

theorem raw_literal_verbatim (body : List Char) (h : ∀ c ∈ body, c ≠ '`') :
    Num.unquote (String.ofList ('`' :: body ++ ['`'])) = some (String.ofList body) ↔
      ∀ c ∈ body, c ≠ '\r' :=
  Num.unquote_raw_verbatim_iff body h

/-- FINDING (kernel-checked): a raw string loses its carriage returns; nothing else changes -/
example : Num.unquote "`a\rb`" = some "ab" ∧ Num.unquote "`a\\nb`" = some "a\\nb" := by decide

/-! ## absolute date-time forms -/

/-- **date ↦ day ↦ date**: the model's calendar function returns, for the day number of a date
of the (proleptic Gregorian) calendar from 0000-03-01 on, that date.  `Civil.dayNumber` counts
days naively (`Yae/Spec/Civil.lean`). -/
theorem civil_round_trip (y m d : Nat) (hv : Civil.ValidDate y m d) (hr : Civil.FromMarch0 y m) :
    civilFromDays (Civil.dayNumber y m d) = ((y : Int), m, d) :=
  civilFromDays_dayNumber y m d hv hr

/-- **day ↦ date ↦ day**: from day -719468 (0000-03-01) on the model's calendar function returns
a date of the calendar, whose day number is the day it was given. -/
theorem day_round_trip (z : Int) (hz : 0 ≤ z + 719468) :
    (∃ y m d : Nat, civilFromDays z = ((y : Int), m, d) ∧ Civil.ValidDate y m d ∧
      Civil.FromMarch0 y m) ∧
    Civil.dayNumber (civilFromDays z).1.toNat (civilFromDays z).2.1 (civilFromDays z).2.2 = z :=
  ⟨civilFromDays_valid z hz, dayNumber_civilFromDays z hz⟩

set_option maxRecDepth 20000 in
/-- non-vacuity: 1970-01-01 is day 0, 2024-02-29 is day 19782, 0000-03-01 is day -719468 -/
example : Civil.ValidDate 2024 2 29 ∧ Civil.FromMarch0 2024 2 ∧ Civil.dayNumber 2024 2 29 = 19782 ∧
    Civil.dayNumber 1970 1 1 = 0 ∧ Civil.dayNumber 0 3 1 = -719468 ∧
    civilFromDays 19782 = (2024, 2, 29) := by decide

/-- FINDING (the known limit, `C18.needs_date_from_march_of_year_0`): before 0000-03-01 the law
fails for the model: the day number of 0000-02-28 is given back as 0000-02-29 -/
theorem civil_round_trip_fails_before_march_0 :
    Civil.ValidDate 0 2 28 ∧ civilFromDays (Civil.dayNumber 0 2 28) = (0, 2, 29) := by decide

/-- **an absolute date-time displays as itself**: when `strtotime` (or a time literal; both take
the answer of `timelib.Strtotime` from the table `Externs.strtotime`) yields, for the text of an
absolute form, the Unix time `Civil.epochOf y m d hh mm ss` of that date-time in UTC, the value is
the instant that `Time.String()` displays with exactly these fields. -/
theorem strtotime_absolute (ext : Externs) (s : String) (y m d hh mm ss : Nat)
    (hs : ext.strtotime? s = some (Civil.epochOf y m d hh mm ss))
    (hv : Civil.ValidDate y m d) (hr : Civil.FromMarch0 y m)
    (h1 : hh < 24) (h2 : mm < 60) (h3 : ss < 60) :
    ∃ t, applyBuiltin ext .STRTOTIME_STR [.str s] = .ok (.time t, []) ∧
      t.sec = Civil.epochOf y m d hh mm ss ∧ t.nsec = 0 ∧
      t.render = pad 4 y ++ "-" ++ pad 2 m ++ "-" ++ pad 2 d ++ " " ++ pad 2 hh ++ ":" ++
        pad 2 mm ++ ":" ++ pad 2 ss ++ " +0000 UTC" := by
  refine ⟨TimeV.unix (Civil.epochOf y m d hh mm ss), ?_, rfl, rfl,
    render_unix_epochOf y m d hh mm ss hv hr h1 h2 h3⟩
  simp only [applyBuiltin, hs]

/-- the same for a time literal: the parser stores the table's answer in the tree, `eval` turns it
into the instant -/
theorem time_literal (fuel : Nat) (dbg : Bool) (env : REnv) (p : Pos) (v : Int) :
    eval (fuel + 1) dbg env (.time p v) = pure (.time (TimeV.unix v)) := by
  simp only [eval]

set_option maxRecDepth 20000 in
/-- non-vacuity: `2024-02-29 12:30:05` -/
example : ∃ t : TimeV, t = TimeV.unix (Civil.epochOf 2024 2 29 12 30 5) ∧ t.sec = 1709209805 ∧
    t.render = "2024-02-29 12:30:05 +0000 UTC" := ⟨_, rfl, by decide, by decide⟩

/-- **reading the text back**: in whatever way the text of an instant (`Time.String()`, for an
instant satisfying `TimeV.TextOK`: displayed date from 0000-03-01 on, whole-minute zone offset,
nanoseconds below `10^9`) is read as the layout `YYYY-MM-DD hh:mm:ss[.fffffffff] ±hhmm ZONE`
(`timeL`), the fields denote the instant: seconds by the calendar, nanoseconds by the fraction. -/
theorem time_text_read_back (t : TimeV) (ht : t.TextOK) {Y M D hh mm ss ns oh om : Nat} {neg : Bool}
    {zone : List Char} (hns : ns < 1000000000) (hom : om < 100)
    (h : t.render.toList = timeL Y M D hh mm ss ns neg oh om zone) :
    t.sec = instantOf Y M D hh mm ss (offsetOf neg oh om) ∧ t.nsec = ns :=
  read_back t ht hns hom h

/-- **reading the rendered date-time back gives the instant**: `readTime` reads the layout of
`Time.String()` and computes seconds and nanoseconds from the fields by the calendar of
`Yae/Spec/Civil.lean`; on the text of an instant (displayed date from 0000-03-01 on, whole-minute
zone offset below 100 hours, nanoseconds below `10^9`) it returns the instant. -/
theorem time_text_reader (t : TimeV) (ht : t.TextOK) (hoff : t.offset.natAbs < 360000) :
    readTime t.render = some (t.sec, t.nsec) :=
  readTime_render t ht hoff

set_option maxRecDepth 20000 in
/-- non-vacuity of the reader, and of its hypotheses -/
example : readTime "2024-02-29 12:30:05.25 +0200 CEST" = some (1709202605, 250000000) ∧
    (⟨1709202605, 250000000, 7200, "CEST"⟩ : TimeV).render = "2024-02-29 12:30:05.25 +0200 CEST" := by
  decide
example : (⟨1709202605, 250000000, 7200, "CEST"⟩ : TimeV).TextOK :=
  ⟨by decide, by decide, by decide, by decide⟩

/-- **a time literal** `'body'`: the parser looks `body` (the lexeme without its two quotes) up in
the table of `timelib.Strtotime`; with the answer `Civil.epochOf …` for an absolute form the
literal evaluates to the instant displayed with exactly these fields. -/
theorem time_literal_absolute (env : PEnv) (tok : Token) (body : String) (y m d hh mm ss : Nat)
    (hlex : tok.lexeme = "'" ++ body ++ "'")
    (hs : env.times.lookup body = some (Civil.epochOf y m d hh mm ss))
    (hv : Civil.ValidDate y m d) (hr : Civil.FromMarch0 y m)
    (h1 : hh < 24) (h2 : mm < 60) (h3 : ss < 60) (fuel : Nat) (dbg : Bool) (renv : REnv) :
    ∃ e t, env.timeLit tok = .ok e ∧ eval (fuel + 1) dbg renv e = pure (.time t) ∧
      t.sec = Civil.epochOf y m d hh mm ss ∧ t.nsec = 0 ∧
      t.render = pad 4 y ++ "-" ++ pad 2 m ++ "-" ++ pad 2 d ++ " " ++ pad 2 hh ++ ":" ++
        pad 2 mm ++ ":" ++ pad 2 ss ++ " +0000 UTC" :=
  ⟨_, _, timeLit_quoted env tok body _ hlex hs, time_literal fuel dbg renv tok.pos _, rfl, rfl,
    render_unix_epochOf y m d hh mm ss hv hr h1 h2 h3⟩

/-- … and the fields `TimeV.render` prints are a date of the calendar and a time of day -/
theorem time_text_fields (t : TimeV) (h : -62162035200 ≤ t.sec + t.offset) :
    ∃ y m d : Nat, civilFromDays t.days = ((y : Int), m, d) ∧ Civil.ValidDate y m d ∧
      Civil.FromMarch0 y m ∧ t.sod < 86400 ∧
      t.sec = instantOf y m d (t.sod / 3600) (t.sod % 3600 / 60) (t.sod % 60) t.offset := by
  obtain ⟨y, m, d, h1, h2, h3, h4⟩ := sec_of_displayed t h
  exact ⟨y, m, d, h1, h2, h3, t.sod_lt, h4⟩

#print axioms eq_num
#print axioms ne_num
#print axioms ne_num_eq_not_eq_num
#print axioms lt_le_num
#print axioms within_tolerance
#print axioms union_eq
#print axioms intersect_eq
#print axioms diff_eq
#print axioms valSetOf_first_occurrence
#print axioms union_law
#print axioms intersect_law
#print axioms diff_law
#print axioms get_map
#print axioms isset_map
#print axioms get_agrees_with_isset
#print axioms key?_isSome_of_prim
#print axioms get_list
#print axioms get_maybe

#print axioms len_law
#print axioms len_runes
#print axioms string_builtin
#print axioms string_prim
#print axioms string_list
#print axioms string_obj
#print axioms string_map
#print axioms string_eq_String
#print axioms Yae.string_not_quoted
#print axioms Yae.map_keys_stay_quoted
#print axioms Yae.obj_order_differs
#print axioms Yae.maybe_fn_differ
#print axioms eq_ne_exact
#print axioms time_cmp
#print axioms time_cmp_ns
#print axioms radix_literal
#print axioms radix_literal_exact
#print axioms radix_lexemes
#print axioms int_literal
#print axioms int_literal_exact
#print axioms int_literal_round_trip
#print axioms float_literal
#print axioms numeric_lexemes_rejected
#print axioms str_literal
#print axioms str_literal_items
#print axioms str_literal_plain
#print axioms str_literal_escape
#print axioms str_literal_rejected
#print axioms raw_literal
#print axioms raw_literal_verbatim
#print axioms civil_round_trip
#print axioms day_round_trip
#print axioms civil_round_trip_fails_before_march_0
#print axioms strtotime_absolute
#print axioms time_literal
#print axioms time_text_read_back
#print axioms time_text_reader
#print axioms time_literal_absolute
#print axioms time_text_fields

end Yae.C04
