/-
  C05. "Compilation succeeds if and only if the expression is well-typed under the language's
  typing rules (homogeneous lists and maps with primitive keys, objects with distinct fields,
  field access only on objects that have the field, subscripts only on lists by number and on maps
  by their key type, calls resolved to an exactly matching monomorphic overload first and
  otherwise to the first registered polymorphic overload whose parameters can be instantiated to
  the argument types with a fully concrete result), and the inferred type is the one the rules
  assign. Ill-typed expressions are rejected at compile time, never at run time."

  Specification: `Yae.Spec.Typing` (`Typed Γ e T`, the declarative rules; `instantiate`, matching
  of a parameter list against the argument types; `Typed'`, the natural variant of the overload
  rule).  Model: `Yae.Model.Check` (`check`).  Proofs: `Yae.Proofs.TypingCheck`,
  `Yae.Proofs.TypingNatural`, `Yae.Proofs.TypingD22`.

  What is proved, and under which hypotheses (`EnvOK Γ`, see `Yae.Proofs.TypingCheck`):
  * variable types are variable free, well formed and contain no function type (so the rule for
    calling a function-*valued expression* is never applicable: that rule is stated in `Typed`,
    but the theorems do not exercise it);
  * every registered function has a function type, a monomorphic one a result type as above;
  * every registered polymorphic signature satisfies `PolyOK`: `inferFun` (the unifier-based
    instantiation of the checker, for *every* value of the type-variable counter) returns what
    the specification's `instantiate` returns, unless its internal fuel runs out.
  THE GAP (`_partial`): `PolyOK name ps ret` is a hypothesis, it is not derived from a decidable
  well-formedness condition on the signature.  The missing lemma is
    `inferFun ctr name ps ret As = .error .fuel ∨
     inferFun ctr name ps ret As = (match instantiate ps ret As with | some r => .ok r | none => .error .fail)`
  for well-formed signatures whose variables differ from the fresh names `s<n>`/`t<n>`, without
  function-typed parameters, and variable-free well-formed `As` (a simulation of `unify` on the
  substitution `[s₁ := p₁, …, t := ret]` by `pmatch` on `[]`), plus `instantiate … = some (_, T) →
  TyOK T`.  C17's `match_sound`/`match_complete` do not give it: they relate `unify` to `⊑`, which
  is too coarse (see the report), and require a globally ground substitution.
  The internal fuel is a model artefact; it is kept visible: completeness says "accepted, or
  the fuel ran out", never hiding a fuel failure behind a rejection.
-/
import Yae.Proofs.TypingCheck
import Yae.Proofs.TypingD22
import Yae.Proofs.TypingNatural
namespace Yae.C05
open Yae

/-! ## soundness -/

/-- Whatever `check` accepts is well typed, and the type it returns is the type the rules
assign (exactly, not only up to `tyEq`).

Full statement aimed at: the same for every `Γ`.  Missing: the hypothesis `EnvOK Γ` (no
function-typed variables; `PolyOK` for the polymorphic signatures). -/
theorem sound_partial {Γ : TEnv} {c c' : Nat} {e e' : Expr} {T : Ty} (hΓ : EnvOK Γ)
    (h : check Γ c e = .ok (T, e', c')) : Typed Γ e T :=
  check_sound hΓ e c T e' c' h

/-- the form asked for: some assigned type equal (`tyEq`) to the inferred one -/
theorem sound_tyEq_partial {Γ : TEnv} {c c' : Nat} {e e' : Expr} {T : Ty} (hΓ : EnvOK Γ)
    (h : check Γ c e = .ok (T, e', c')) : ∃ T', Typed Γ e T' ∧ tyEq T T' = true :=
  ⟨T, check_sound hΓ e c T e' c' h,
    tyEq_refl' (TyOK_iff.1 (typed_tyOK hΓ e T (check_sound hΓ e c T e' c' h))).2.1⟩

/-- Ill-typed expressions are rejected at compile time: no run of the checker accepts them. -/
theorem illTyped_rejected_partial {Γ : TEnv} {e : Expr} (hΓ : EnvOK Γ)
    (h : ¬ ∃ T, Typed Γ e T) (c : Nat) : ∀ r, check Γ c e ≠ .ok r := by
  rintro ⟨T, e', c'⟩ hr
  exact h ⟨T, check_sound hΓ e c T e' c' hr⟩

/-! ## completeness -/

/-- A well-typed expression is accepted, with exactly the assigned type, for *every* value of
the type-variable counter — or the checker's internal fuel ran out (never observed; C17 bounds
it by the size of the argument types).

Full statement aimed at: `∃ T' e' c', check Γ c e = .ok (T', e', c') ∧ tyEq T T' = true` from
`WFEnv Γ`.  Missing: `EnvOK Γ` as above, and the fuel alternative. -/
theorem complete_partial {Γ : TEnv} {e : Expr} {T : Ty} (hΓ : EnvOK Γ) (h : Typed Γ e T)
    (c : Nat) : check Γ c e = .error .fuel ∨ ∃ e' c', check Γ c e = .ok (T, e', c') :=
  check_complete hΓ e T h c

/-- The type-variable counter is not observable: if one run accepts with type `T`, every run
(from any counter value) accepts with the same type `T`, or runs out of fuel. -/
theorem counter_irrelevant_partial {Γ : TEnv} {c c' : Nat} {e e' : Expr} {T : Ty} (hΓ : EnvOK Γ)
    (h : check Γ c e = .ok (T, e', c')) (c₂ : Nat) :
    check Γ c₂ e = .error .fuel ∨ ∃ e'' c'', check Γ c₂ e = .ok (T, e'', c'') :=
  check_complete hΓ e T (check_sound hΓ e c T e' c' h) c₂

/-- "Compilation succeeds if and only if the expression is well typed" (when the fuel does not
run out). -/
theorem accepts_iff_typed_partial {Γ : TEnv} {e : Expr} (hΓ : EnvOK Γ) (c : Nat)
    (hfuel : check Γ c e ≠ .error .fuel) :
    (∃ T e' c', check Γ c e = .ok (T, e', c')) ↔ ∃ T, Typed Γ e T := by
  constructor
  · rintro ⟨T, e', c', h⟩; exact ⟨T, check_sound hΓ e c T e' c' h⟩
  · rintro ⟨T, h⟩
    rcases check_complete hΓ e T h c with hf | ⟨e', c', h'⟩
    · exact absurd hf hfuel
    · exact ⟨T, e', c', h'⟩

/-! ## the rules assign at most one type -/

/-- no hypothesis on the environment: the relation is deterministic on the nose -/
theorem unique {Γ : TEnv} {e : Expr} {T₁ T₂ : Ty} (h₁ : Typed Γ e T₁) (h₂ : Typed Γ e T₂) :
    T₁ = T₂ := typed_unique e T₁ T₂ h₁ h₂

/-- the form asked for -/
theorem unique_tyEq_partial {Γ : TEnv} {e : Expr} {T₁ T₂ : Ty} (hΓ : EnvOK Γ)
    (h₁ : Typed Γ e T₁) (h₂ : Typed Γ e T₂) : tyEq T₁ T₂ = true := by
  rw [typed_unique e T₁ T₂ h₁ h₂]
  exact tyEq_refl' (TyOK_iff.1 (typed_tyOK hΓ e T₂ h₂)).2.1

/-! ## the annotated tree is the input tree plus attachments -/

theorem erase {Γ : TEnv} {c c' : Nat} {e e' : Expr} {T : Ty}
    (h : check Γ c e = .ok (T, e', c')) : Yae.erase e' = Yae.erase e :=
  check_erase Γ e c T e' c' h

/-! ## non-vacuity -/

/-- the checker accepts `x + x` with type `num` (computed by the kernel) -/
theorem exExpr_checked : ∃ e', check exEnv 0 exExpr = .ok (.num, e', 0) := ⟨_, rfl⟩

example : EnvOK exEnv := exEnv_ok
example : Typed exEnv exExpr .num := exExpr_typed

/-- so the hypotheses of `sound_partial`, `complete_partial`, `counter_irrelevant_partial`,
`accepts_iff_typed_partial`, `erase` are satisfiable, and in `complete_partial` it is the
acceptance (not the fuel alternative) that holds here -/
example : Typed exEnv exExpr .num :=
  let ⟨_, h⟩ := exExpr_checked; sound_partial exEnv_ok h

example : check exEnv 0 exExpr ≠ .error .fuel := by
  obtain ⟨_, h⟩ := exExpr_checked; rw [h]; intro h'; cases h'

/-- an ill-typed expression (`x[x]`: subscript on a number) -/
example : ¬ ∃ T, Typed exEnv
    (.subscript Pos.unknown 0 (.ident Pos.unknown "x") (.ident Pos.unknown "x") none) T := by
  rintro ⟨T, h⟩
  cases h with
  | subList h1 _ _ => cases h1 with | ident _ hl => cases hl
  | subMap h1 _ _ => cases h1 with | ident _ hl => cases hl

/-! ## the overload rule the checker implements is not the natural one (finding D22)

`Typed'` differs from `Typed` only in the polymorphic call rule: the first overload that can be
instantiated *and* whose instantiated parameters equal the argument types.  With the overloads
`f(list['a]) num`, `f('a) str` (in this order) and the call `f([][0])` (argument type `⊥`):
`list['a]` absorbs `⊥`, the checker commits to the first overload, then rejects the program
because `list['a]` is not `⊥`; the natural rule picks the second overload. -/

theorem d22_natural_rule_accepts : Typed' d22Env d22Expr .str := d22_typed'

theorem d22_checker_rule_rejects : ¬ ∃ T, Typed d22Env d22Expr T := d22_not_typed

/-- The rendered key of a monomorphic overload does not determine its parameter types (so
`render_eq_imp_tyEq` is false); the monomorphic rule therefore has the equality of parameters and
argument types as a premise of its own, as the checker tests it (`assertParams`). -/
theorem mono_key_not_injective :
    (Ty.obj (.cons "a" .num (.cons "b" .str .nil))).render =
      (Ty.obj (.cons "a: num, b" .str .nil)).render ∧
    tyEq (.obj (.cons "a" .num (.cons "b" .str .nil))) (.obj (.cons "a: num, b" .str .nil)) = false :=
  render_not_injective

/-- Why `instantiate` is not stated as "`∃ σ`, `σ(params) ⊑ args`" (`⊑` of C17): that condition
holds for `('a, 'a)` against `(list[⊥], list[num])` with `σ 'a = list[num]`, but the parameters
cannot be instantiated (`'a` is bound to `list[⊥]` first, which is not equal to `list[num]`), so
the checker moves on to the next overload.  "First overload satisfying the `⊑` condition" would
select a different overload than the checker does. -/
example :
    (Ty.tuple (.cons (.list .num) (.cons (.list .num) .nil))) ⊑
      (Ty.tuple (.cons (.list .bot) (.cons (.list .num) .nil))) ∧
    instantiate (.cons (.var "a") (.cons (.var "a") .nil)) (.var "a")
      (.cons (.list .bot) (.cons (.list .num) .nil)) = none :=
  ⟨.tuple (.cons (.list (.botR _)) (.cons (.list .num) .nil)), rfl⟩

/-- Everything the checker's rules type, the natural rules type, with the same type. -/
theorem natural_rule_contains {Γ : TEnv} {e : Expr} {T : Ty} (h : Typed Γ e T) : Typed' Γ e T :=
  typed_imp_typed' e T h

/-- The two polymorphic-overload rules coincide (same overload, same instantiated parameters,
same result) when no argument type contains `⊥`/`⊤` and no candidate parameter contains `⊤`:
then an instantiation that succeeds is exact, so "first that can be instantiated, then must be
equal" and "first that can be instantiated and is equal" select the same candidate.
(The two systems differ in this rule only; the lifting of the converse inclusion to whole
expressions, under the side condition for every call inside, is not stated.) -/
theorem overload_rules_coincide {cands : List FunDecl} {As ps' : TyList} {T : Ty}
    (hA : noBTList As = true) (hw : wfList As = true) (hc : CandsNoTop cands) :
    (FirstInst cands As ps' T ∧ tyEqList ps' As = true) ↔ FirstAccepted cands As ps' T :=
  ⟨fun h => firstInst_accepted h.1 h.2, firstAccepted_inst hA hw hc⟩

/-- non-vacuity: the D22 overloads applied to an argument of type `num` — here both rules select
the second overload (`f('a) str`) -/
example : noBTList (.cons .num .nil) = true ∧ wfList (.cons .num .nil) = true ∧
    CandsNoTop d22Env.funs ∧
    FirstAccepted d22Env.funs (.cons .num .nil) (.cons .num .nil) .str := by
  refine ⟨rfl, rfl, ?_, .later rfl (fun qs U h => by cases h) (.here rfl rfl rfl)⟩
  intro d hd name ps ret hty
  simp only [d22Env, List.mem_cons, List.not_mem_nil, or_false] at hd
  rcases hd with rfl | rfl <;> cases hty <;> rfl

end Yae.C05

#print axioms Yae.C05.sound_partial
#print axioms Yae.C05.sound_tyEq_partial
#print axioms Yae.C05.illTyped_rejected_partial
#print axioms Yae.C05.complete_partial
#print axioms Yae.C05.counter_irrelevant_partial
#print axioms Yae.C05.accepts_iff_typed_partial
#print axioms Yae.C05.unique
#print axioms Yae.C05.unique_tyEq_partial
#print axioms Yae.C05.erase
#print axioms Yae.exEnv_ok
#print axioms Yae.exExpr_typed
#print axioms Yae.C05.exExpr_checked
#print axioms Yae.C05.d22_natural_rule_accepts
#print axioms Yae.C05.d22_checker_rule_rejects
#print axioms Yae.C05.mono_key_not_injective
#print axioms Yae.C05.natural_rule_contains
#print axioms Yae.C05.overload_rules_coincide
