/-
  C05 without the `PolyOK` hypothesis, and without the fuel alternative.

  `Yae/Props/C05.lean` proves soundness and completeness of `check` against the declarative
  rules `Typed` under `EnvOK Γ`, which contains, for every registered polymorphic signature,
  the hypothesis `PolyOK name ps ret` ("`inferFun` returns what `instantiate` says, or runs out of
  fuel").  Here `PolyOK` is *derived* from a decidable, syntactic condition on the signature
  (`sigOK`, `Yae/Proofs/TypingPolyOK.lean`):

    * parameters and result are well formed (`Ty.wf`: distinct field names, keyable map keys),
    * their type variables are not named `s…` / `t…` (the fresh names `inferFun` draws),
    * they contain no function type,
    * no type variable occurs inside a map-key position of the *result* type,
    * the parameter list has at most `defaultFuel - 4 = 99996` constructors.

  All 56 built-in signatures satisfy it (`builtins_sigOK`, by `decide`).  For such signatures
  `inferFun` equals the specification outright (`sigOK_inferFun`): the unifier's fuel decreases
  along the pattern, whose size `sigOK` bounds, so the fuel alternative disappears, from `PolyOK`
  and (`never_fuel`) from the headline theorems.

  The condition is sufficient, not claimed to be necessary.  What each part is used for: a
  variable named `t1` could collide with the fresh result variable (the proof keeps signature
  variables and fresh names apart by their first letter, `Sound.okVarName`); a function-typed
  parameter is outside the specification's `pmatch`; a variable in a map-key position of the
  result can be instantiated to a non-keyable type, where `inferFun` panics (`types.Map`) while
  `instantiate` answers with a type that is not well formed -- for such a signature `PolyOK` is
  false (`resultKey_needed`, kernel checked).

  `SigEnv Γ`: every variable has a type expressions can have (`TyOK`: variable free, well
  formed, no function type); every registered declaration has a function type, and `TyOK` result
  if it is monomorphic, `sigOK` if it is polymorphic (`declOK`).  `builtinEnv vars` is one.
-/
import Yae.Proofs.TypingPolyOK
import Yae.Proofs.TypingD22
namespace Yae.C05
open Yae Yae.PolyOK

/-! ## the syntactic condition -/

/-- **`PolyOK` is a consequence of `sigOK`.** -/
theorem sigOK_polyOK {name : String} {ps : TyList} {ret : Ty}
    (h : sigOK (.fn name ps ret) = true) : PolyOK name ps ret :=
  PolyOK.sigOK_polyOK h

/-- the stronger fact behind it: for argument types expressions can have, `inferFun` (for every
value of the type-variable counter) *is* the specification; no fuel alternative -/
theorem sigOK_inferFun {name : String} {ps : TyList} {ret : Ty}
    (h : sigOK (.fn name ps ret) = true) {As : TyList} (hA : TyOKList As = true) (ctr : Nat) :
    inferFun ctr name ps ret As =
      (match instantiate ps ret As with | some r => .ok r | none => .error .fail) :=
  PolyOK.sigOK_inferFun h hA ctr

/-- ... and an instantiated result is again a type expressions can have -/
theorem sigOK_instantiate_tyOK {name : String} {ps : TyList} {ret : Ty}
    (h : sigOK (.fn name ps ret) = true) {As ps' : TyList} {T : Ty} (hA : TyOKList As = true)
    (hi : instantiate ps ret As = some (ps', T)) : TyOK T = true :=
  ((PolyOK.sigOK_polyOK h) As hA).2 ps' T hi

/-- every built-in signature satisfies the condition -/
theorem builtins_sigOK : builtins.all (fun b => sigOK b.ty) = true := PolyOK.builtins_sigOK

/-- an environment whose variable types are `TyOK` and whose registered signatures satisfy
`sigOK` is `EnvOK` -/
theorem envOK_of_sigOK {Γ : TEnv} (hv : ∀ x T, Γ.lookupVar x = some T → TyOK T = true)
    (hf : ∀ d ∈ Γ.funs, sigOK d.ty = true) : EnvOK Γ :=
  PolyOK.envOK_of_sigOK hv hf

/-- the same with `sigOK` asked of the polymorphic declarations only (`declOK`) -/
theorem envOK_of_sigEnv {Γ : TEnv} (h : SigEnv Γ) : EnvOK Γ := h.envOK

/-- the built-ins with variables of types expressions can have -/
theorem builtinEnv_sigEnv {vars : List (String × Ty)} (hv : ∀ p ∈ vars, TyOK p.2 = true) :
    SigEnv (builtinEnv vars) :=
  PolyOK.builtinEnv_sigEnv hv

/-! ## the headline theorems, for `SigEnv` -/

/-- the unifier's fuel never runs out: `check` never fails with `fuel` -/
theorem never_fuel {Γ : TEnv} (hΓ : SigEnv Γ) (e : Expr) (c : Nat) : check Γ c e ≠ .error .fuel :=
  check_ne_fuel hΓ e c

/-- **Soundness.**  Whatever `check` accepts is well typed, and the type it returns is the type
the rules assign. -/
theorem sound {Γ : TEnv} {c c' : Nat} {e e' : Expr} {T : Ty} (hΓ : SigEnv Γ)
    (h : check Γ c e = .ok (T, e', c')) : Typed Γ e T :=
  check_sound hΓ.envOK e c T e' c' h

/-- **Completeness.**  A well-typed expression is accepted, with exactly the assigned type, for
every value of the type-variable counter. -/
theorem complete {Γ : TEnv} {e : Expr} {T : Ty} (hΓ : SigEnv Γ) (h : Typed Γ e T) (c : Nat) :
    ∃ e' c', check Γ c e = .ok (T, e', c') := by
  rcases check_complete hΓ.envOK e T h c with hf | h'
  · exact absurd hf (never_fuel hΓ e c)
  · exact h'

/-- **"Compilation succeeds if and only if the expression is well typed."** -/
theorem accepts_iff_typed {Γ : TEnv} {e : Expr} (hΓ : SigEnv Γ) (c : Nat) :
    (∃ T e' c', check Γ c e = .ok (T, e', c')) ↔ ∃ T, Typed Γ e T :=
  ⟨fun ⟨T, _, _, h⟩ => ⟨T, sound hΓ h⟩, fun ⟨T, h⟩ => ⟨T, complete hΓ h c⟩⟩

/-- ... and the inferred type is the one the rules assign -/
theorem accepts_with_iff_typed {Γ : TEnv} {e : Expr} {T : Ty} (hΓ : SigEnv Γ) (c : Nat) :
    (∃ e' c', check Γ c e = .ok (T, e', c')) ↔ Typed Γ e T :=
  ⟨fun ⟨_, _, h⟩ => sound hΓ h, fun h => complete hΓ h c⟩

/-- Ill-typed expressions are rejected at compile time. -/
theorem illTyped_rejected {Γ : TEnv} {e : Expr} (hΓ : SigEnv Γ) (h : ¬ ∃ T, Typed Γ e T)
    (c : Nat) : ∀ r, check Γ c e ≠ .ok r := by
  rintro ⟨T, e', c'⟩ hr
  exact h ⟨T, sound hΓ hr⟩

/-- The type-variable counter is not observable. -/
theorem counter_irrelevant {Γ : TEnv} {c c' : Nat} {e e' : Expr} {T : Ty} (hΓ : SigEnv Γ)
    (h : check Γ c e = .ok (T, e', c')) (c₂ : Nat) :
    ∃ e'' c'', check Γ c₂ e = .ok (T, e'', c'') :=
  complete hΓ (sound hΓ h) c₂

/-! ## non-vacuity -/

def exVars : List (String × Ty) := [("x", .num), ("l", .list .num)]

/-- the built-ins (16 of the 56 signatures are polymorphic) and two variables -/
theorem exSigEnv : SigEnv (builtinEnv exVars) := builtinEnv_sigEnv (by decide)

/-- `get(l, 0, x)`: resolved to the polymorphic overload `get(list['a], num, 'a) 'a` -/
def exPoly : Expr :=
  .call Pos.unknown 0 (.ident Pos.unknown "get")
    (.cons (.ident Pos.unknown "l") (.cons (.num Pos.unknown 0) (.cons (.ident Pos.unknown "x") .nil)))
    none "" 0

def exAs : TyList := .cons (.list .num) (.cons .num (.cons .num .nil))

set_option maxRecDepth 100000 in
theorem exMono : lookupMono (builtinEnv exVars).funs (monoKey "get" exAs) = none := by rfl

set_option maxRecDepth 100000 in
theorem exPoly_typed : Typed (builtinEnv exVars) exPoly .num :=
  .callPoly (As := exAs) (ps' := exAs)
    (.cons (.ident rfl rfl) (.cons (.num _ _) (.cons (.ident rfl rfl) .nil)))
    exMono
    (.here (name := "get") (ps := .cons (.list (.var "a")) (.cons .num (.cons (.var "a") .nil)))
      (ret := .var "a") rfl rfl) rfl

/-- `sigOK_polyOK`, `sigOK_inferFun`, `sigOK_instantiate_tyOK`: the hypothesis holds for the
signature of `get` -/
example : sigOK (.fn "get" (.cons (.list (.var "a")) (.cons .num (.cons (.var "a") .nil))) (.var "a")) = true := by
  decide
example : TyOKList exAs = true := by decide

/-- `envOK_of_sigOK`: hypotheses satisfiable (every built-in declaration is `sigOK`) -/
example : EnvOK (builtinEnv exVars) :=
  envOK_of_sigOK exSigEnv.vars fun d hd => List.all_eq_true.mp builtinFuns_sigOK d hd

/-- `complete`, `counter_irrelevant`, `accepts_with_iff_typed`: the checker accepts `exPoly`
with type `num` from every counter value (this run goes through `inferFun`) -/
example (c : Nat) : ∃ e' c', check (builtinEnv exVars) c exPoly = .ok (.num, e', c') :=
  complete exSigEnv exPoly_typed c

/-- `sound`, `accepts_iff_typed`: an accepting run exists, so their hypotheses are satisfiable -/
example : ∃ T, Typed (builtinEnv exVars) exPoly T := by
  obtain ⟨e', c', h⟩ := complete exSigEnv exPoly_typed 0
  exact ⟨.num, sound exSigEnv h⟩

/-- `illTyped_rejected`: `x[x]` (subscript on a number) is ill typed, hence rejected by every run -/
def exBad : Expr :=
  .subscript Pos.unknown 0 (.ident Pos.unknown "x") (.ident Pos.unknown "x") none

theorem exBad_illTyped : ¬ ∃ T, Typed (builtinEnv exVars) exBad T := by
  rintro ⟨T, h⟩
  cases h with
  | subList h1 _ _ => cases h1 with | ident _ hl => cases hl
  | subMap h1 _ _ => cases h1 with | ident _ hl => cases hl

example (c : Nat) : ∀ r, check (builtinEnv exVars) c exBad ≠ .ok r :=
  illTyped_rejected exSigEnv exBad_illTyped c

/-- why the result type may not have a variable in a map-key position: the specification
instantiates `f('a, 'b) map['a, 'b]` at `(list[num], num)` to `map[list[num], num]`, which is
not well formed (`inferFun` panics there, in `types.Map`): `PolyOK` is false for this signature,
and `sigOK` excludes it -/
theorem resultKey_needed :
    ¬ PolyOK "f" (.cons (.var "a") (.cons (.var "b") .nil)) (.map (.var "a") (.var "b")) ∧
    sigOK (.fn "f" (.cons (.var "a") (.cons (.var "b") .nil)) (.map (.var "a") (.var "b"))) = false := by
  refine ⟨fun h => ?_, by decide⟩
  have h2 := (h (.cons (.list .num) (.cons .num .nil)) (by decide)).2
    (.cons (.list .num) (.cons .num .nil)) (.map (.list .num) .num) rfl
  exact absurd h2 (by decide)

end Yae.C05

#print axioms Yae.C05.sigOK_polyOK
#print axioms Yae.C05.sigOK_inferFun
#print axioms Yae.C05.sigOK_instantiate_tyOK
#print axioms Yae.C05.builtins_sigOK
#print axioms Yae.C05.envOK_of_sigOK
#print axioms Yae.C05.envOK_of_sigEnv
#print axioms Yae.C05.builtinEnv_sigEnv
#print axioms Yae.C05.never_fuel
#print axioms Yae.C05.sound
#print axioms Yae.C05.complete
#print axioms Yae.C05.accepts_iff_typed
#print axioms Yae.C05.accepts_with_iff_typed
#print axioms Yae.C05.illTyped_rejected
#print axioms Yae.C05.counter_irrelevant
#print axioms Yae.C05.exSigEnv
#print axioms Yae.C05.exPoly_typed
#print axioms Yae.C05.exBad_illTyped
#print axioms Yae.C05.resultKey_needed
