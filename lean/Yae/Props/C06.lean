/-
  C06. "Conditionals and the short-circuit operators (and any function registered as lazy)
  evaluate the condition once and then only the operand that is selected, so a guarded partial
  operation such as if(isset(m,k), m[k], d) can never fail; all other operands - call arguments,
  list elements, map entries, object fields - are evaluated exactly once in source order. The
  sequence of host-function invocations observed during evaluation is therefore fully determined
  by the program and is the same on every back end."

  Model: `Yae.Model.Eval` (`eval`, the reference evaluator both back ends are tied to by their
  correspondence streams).  `EvalM α = List Event → Except Fail α × List Event` threads the log of
  observable events (most recent first).  Proofs: `Yae.Proofs.TypingEval`.

  Reading the statements: `seq r k` runs `k` from the result and the log of `r` when `r`
  succeeded and otherwise stops with `r`'s failure and log.  Each theorem is an *equation* for one
  evaluation step: the operands that occur on the right-hand side, in the order in which the log
  is threaded through them, are exactly the operands that are evaluated, each once.  An operand
  that does not occur on a branch of the right-hand side is not evaluated on that branch.
-/
import Yae.Proofs.TypingEval
namespace Yae.C06
open Yae

/-! ## lazy built-ins: the condition once, then only the selected operand -/

/-- `if(c, t, e)` (a call statically resolved to the lazy built-in `if`): `c` is evaluated from
the incoming log; on `true` only `t` is evaluated, from the log `c` left; on `false` only `e`; a
failure of `c` is the result and neither branch is touched; then the debug record. -/
theorem if_lazy (f : Nat) (dbg : Bool) (ρ : REnv) (p : Pos) (col : Int) (callee c t e : Expr)
    (cty : Option Ty) (resolved : String) (index : Int) (d : FunDecl) (idx : Nat)
    (b : BuiltinDecl) (log : List Event)
    (hres : resolved ≠ "") (hd : resolveStatic ρ.funs resolved index = some d)
    (href : d.ref = .builtin idx) (hlazy : d.isLazy = true)
    (hb : builtins[idx]? = some b) (hid : b.id = .IF_BOOL_ANY_ANY) :
    eval (f+1) dbg ρ (.call p col callee (.cons c (.cons t (.cons e .nil))) cty resolved index) log =
      seq (seq (eval f dbg ρ c log) fun cv l1 =>
            match cv with
            | .bool true => eval f dbg ρ t l1
            | .bool false => eval f dbg ρ e l1
            | _ => (.error (.stuck "cast:bool"), l1))
        fun v l => recDbg dbg v col l := by
  rw [eval_call_static' _ _ _ _ _ _ _ _ _ _ _ hres hd, href, hlazy, callFun_if' _ _ _ _ _ hb hid]
  rfl

/-- non-vacuity: in the built-in table `"∀.λ if 3"`, index 0 is the lazy built-in number 22, `if` -/
example : ∃ d idx b, resolveStatic builtinFuns "∀.λ if 3" 0 = some d ∧ d.ref = .builtin idx ∧
    d.isLazy = true ∧ builtins[idx]? = some b ∧ b.id = .IF_BOOL_ANY_ANY := by
  obtain ⟨ty, h⟩ := isBuiltinRef_elim guardFuns_builtin.1
  exact ⟨_, 22, _, h, rfl, rfl, rfl, rfl⟩

/-- consequences of `if_lazy`, one per outcome of the condition -/
theorem if_true (f : Nat) (dbg : Bool) (ρ : REnv) (p : Pos) (col : Int) (callee c t e : Expr)
    (cty : Option Ty) (resolved : String) (index : Int) (d : FunDecl) (idx : Nat)
    (b : BuiltinDecl) (log l1 : List Event)
    (hres : resolved ≠ "") (hd : resolveStatic ρ.funs resolved index = some d)
    (href : d.ref = .builtin idx) (hlazy : d.isLazy = true)
    (hb : builtins[idx]? = some b) (hid : b.id = .IF_BOOL_ANY_ANY)
    (hc : eval f dbg ρ c log = (.ok (.bool true), l1)) :
    eval (f+1) dbg ρ (.call p col callee (.cons c (.cons t (.cons e .nil))) cty resolved index) log =
      seq (eval f dbg ρ t l1) fun v l => recDbg dbg v col l := by
  rw [if_lazy f dbg ρ p col callee c t e cty resolved index d idx b log hres hd href hlazy hb hid,
    hc, seq_ok]

theorem if_false (f : Nat) (dbg : Bool) (ρ : REnv) (p : Pos) (col : Int) (callee c t e : Expr)
    (cty : Option Ty) (resolved : String) (index : Int) (d : FunDecl) (idx : Nat)
    (b : BuiltinDecl) (log l1 : List Event)
    (hres : resolved ≠ "") (hd : resolveStatic ρ.funs resolved index = some d)
    (href : d.ref = .builtin idx) (hlazy : d.isLazy = true)
    (hb : builtins[idx]? = some b) (hid : b.id = .IF_BOOL_ANY_ANY)
    (hc : eval f dbg ρ c log = (.ok (.bool false), l1)) :
    eval (f+1) dbg ρ (.call p col callee (.cons c (.cons t (.cons e .nil))) cty resolved index) log =
      seq (eval f dbg ρ e l1) fun v l => recDbg dbg v col l := by
  rw [if_lazy f dbg ρ p col callee c t e cty resolved index d idx b log hres hd href hlazy hb hid,
    hc, seq_ok]

theorem if_cond_fails (f : Nat) (dbg : Bool) (ρ : REnv) (p : Pos) (col : Int)
    (callee c t e : Expr) (cty : Option Ty) (resolved : String) (index : Int) (d : FunDecl)
    (idx : Nat) (b : BuiltinDecl) (log l1 : List Event) (x : Fail)
    (hres : resolved ≠ "") (hd : resolveStatic ρ.funs resolved index = some d)
    (href : d.ref = .builtin idx) (hlazy : d.isLazy = true)
    (hb : builtins[idx]? = some b) (hid : b.id = .IF_BOOL_ANY_ANY)
    (hc : eval f dbg ρ c log = (.error x, l1)) :
    eval (f+1) dbg ρ (.call p col callee (.cons c (.cons t (.cons e .nil))) cty resolved index) log =
      (.error x, l1) := by
  rw [if_lazy f dbg ρ p col callee c t e cty resolved index d idx b log hres hd href hlazy hb hid,
    hc, seq_error, seq_error]

/-- non-vacuity of the three: conditions with each outcome exist -/
example : eval 1 false ⟨[], builtinFuns, {}⟩ (.bool Pos.unknown true) [] = (.ok (.bool true), []) ∧
    eval 1 false ⟨[], builtinFuns, {}⟩ (.bool Pos.unknown false) [] = (.ok (.bool false), []) ∧
    eval 1 false ⟨[], builtinFuns, {}⟩ (.ident Pos.unknown "x") [] =
      (.error (.stuck "missing-var"), []) := by
  refine ⟨by rw [eval]; rfl, by rw [eval]; rfl, by rw [eval_ident']; rfl⟩

/-- `x && y`: `x` once; `y` only when `x` is `true`, from the log `x` left. -/
theorem and_lazy (f : Nat) (dbg : Bool) (ρ : REnv) (p : Pos) (col : Int) (callee x y : Expr)
    (cty : Option Ty) (resolved : String) (index : Int) (d : FunDecl) (idx : Nat)
    (b : BuiltinDecl) (log : List Event)
    (hres : resolved ≠ "") (hd : resolveStatic ρ.funs resolved index = some d)
    (href : d.ref = .builtin idx) (hlazy : d.isLazy = true)
    (hb : builtins[idx]? = some b) (hid : b.id = .LOGIC_AND_BOOL_BOOL) :
    eval (f+1) dbg ρ (.call p col callee (.cons x (.cons y .nil)) cty resolved index) log =
      seq (seq (eval f dbg ρ x log) fun xv l1 =>
            match xv with
            | .bool true =>
              seq (eval f dbg ρ y l1) fun yv l2 =>
                match yv with
                | .bool r => (.ok (.bool r), l2)
                | _ => (.error (.stuck "cast:bool"), l2)
            | .bool false => (.ok (.bool false), l1)
            | _ => (.error (.stuck "cast:bool"), l1))
        fun v l => recDbg dbg v col l := by
  rw [eval_call_static' _ _ _ _ _ _ _ _ _ _ _ hres hd, href, hlazy, callFun_and' _ _ _ _ _ hb hid]
  rfl

set_option maxRecDepth 100000 in
example : ∃ d idx b, resolveStatic builtinFuns "λ && (bool, bool)" (-1) = some d ∧
    d.ref = .builtin idx ∧ d.isLazy = true ∧ builtins[idx]? = some b ∧
    b.id = .LOGIC_AND_BOOL_BOOL := by
  obtain ⟨ty, h⟩ := isBuiltinRef_elim
    (show isBuiltinRef (resolveStatic builtinFuns "λ && (bool, bool)" (-1)) 30 true = true by decide)
  exact ⟨_, 30, _, h, rfl, rfl, rfl, rfl⟩

/-- `x || y`: `x` once; `y` only when `x` is `false`, from the log `x` left. -/
theorem or_lazy (f : Nat) (dbg : Bool) (ρ : REnv) (p : Pos) (col : Int) (callee x y : Expr)
    (cty : Option Ty) (resolved : String) (index : Int) (d : FunDecl) (idx : Nat)
    (b : BuiltinDecl) (log : List Event)
    (hres : resolved ≠ "") (hd : resolveStatic ρ.funs resolved index = some d)
    (href : d.ref = .builtin idx) (hlazy : d.isLazy = true)
    (hb : builtins[idx]? = some b) (hid : b.id = .LOGIC_OR_BOOL_BOOL) :
    eval (f+1) dbg ρ (.call p col callee (.cons x (.cons y .nil)) cty resolved index) log =
      seq (seq (eval f dbg ρ x log) fun xv l1 =>
            match xv with
            | .bool true => (.ok (.bool true), l1)
            | .bool false =>
              seq (eval f dbg ρ y l1) fun yv l2 =>
                match yv with
                | .bool r => (.ok (.bool r), l2)
                | _ => (.error (.stuck "cast:bool"), l2)
            | _ => (.error (.stuck "cast:bool"), l1))
        fun v l => recDbg dbg v col l := by
  rw [eval_call_static' _ _ _ _ _ _ _ _ _ _ _ hres hd, href, hlazy, callFun_or' _ _ _ _ _ hb hid]
  rfl

set_option maxRecDepth 100000 in
example : ∃ d idx b, resolveStatic builtinFuns "λ || (bool, bool)" (-1) = some d ∧
    d.ref = .builtin idx ∧ d.isLazy = true ∧ builtins[idx]? = some b ∧
    b.id = .LOGIC_OR_BOOL_BOOL := by
  obtain ⟨ty, h⟩ := isBuiltinRef_elim
    (show isBuiltinRef (resolveStatic builtinFuns "λ || (bool, bool)" (-1)) 32 true = true by decide)
  exact ⟨_, 32, _, h, rfl, rfl, rfl, rfl⟩

/-- A host function registered as lazy: its invocation is recorded first, then it forces the
thunks it chooses (`order`) one after the other, each from the log the previous one left, and
no other operand. -/
theorem lazy_host (f : Nat) (dbg : Bool) (ρ : REnv) (name : String) (order : List Nat)
    (args : ExprList) (log : List Event) :
    callFun f dbg ρ (.host name (.force order)) true args log =
      forceSeq f dbg ρ args order none (Event.call name [] :: log) :=
  callFun_lazy_host' f dbg ρ name order args log

theorem lazy_host_step (f : Nat) (dbg : Bool) (ρ : REnv) (args : ExprList) (i : Nat)
    (rest : List Nat) (last : Option Val) (a : Expr) (ha : args.get? i = some a)
    (log : List Event) :
    forceSeq f dbg ρ args (i :: rest) last log =
      seq (eval f dbg ρ a log) fun v l => forceSeq f dbg ρ args rest (some v) l :=
  forceSeq_cons' f dbg ρ args i rest last a ha log

example : (ExprList.cons (.bool Pos.unknown true) .nil).get? 0 = some (.bool Pos.unknown true) := rfl

/-! ## strict operands: every one exactly once, in source order -/

/-- operand lists (call arguments, list elements): the head from the incoming log, the tail from
the log the head left -/
theorem operands_in_order (f : Nat) (dbg : Bool) (ρ : REnv) (a : Expr) (as : ExprList)
    (log : List Event) :
    evalList f dbg ρ (.cons a as) log =
      seq (eval f dbg ρ a log) fun v l1 =>
      seq (evalList f dbg ρ as l1) fun vs l2 => (.ok (.cons v vs), l2) :=
  evalList_cons' f dbg ρ a as log

theorem operands_nil (f : Nat) (dbg : Bool) (ρ : REnv) (log : List Event) :
    evalList f dbg ρ .nil log = (.ok .nil, log) := evalList_nil' f dbg ρ log

/-- a strict built-in: the arguments in order, then the function, then what it printed -/
theorem strict_order_builtin (f : Nat) (dbg : Bool) (ρ : REnv) (p : Pos) (col : Int)
    (callee : Expr) (args : ExprList) (cty : Option Ty) (resolved : String) (index : Int)
    (d : FunDecl) (idx : Nat) (b : BuiltinDecl) (log : List Event)
    (hres : resolved ≠ "") (hd : resolveStatic ρ.funs resolved index = some d)
    (href : d.ref = .builtin idx) (hlazy : d.isLazy = false) (hb : builtins[idx]? = some b) :
    eval (f+1) dbg ρ (.call p col callee args cty resolved index) log =
      seq (seq (evalList f dbg ρ args log) fun vs l =>
            match applyBuiltin ρ.ext b.id vs.toList with
            | .ok (v, evs) => (.ok v, evs.reverse ++ l)
            | .error x => (.error x, l))
        fun v l => recDbg dbg v col l := by
  rw [eval_call_static' _ _ _ _ _ _ _ _ _ _ _ hres hd, href, hlazy,
    callFun_strict_builtin' _ _ _ _ _ hb]
  rfl

example : ∃ d idx b, resolveStatic builtinFuns "∀.λ isset 2" 0 = some d ∧
    d.ref = .builtin idx ∧ d.isLazy = false ∧ builtins[idx]? = some b := by
  obtain ⟨ty, h⟩ := isBuiltinRef_elim guardFuns_builtin.2
  exact ⟨_, 24, _, h, rfl, rfl, rfl⟩

/-- a strict host function: the arguments in order, then exactly one invocation event carrying
the rendered argument values -/
theorem strict_order_host (f : Nat) (dbg : Bool) (ρ : REnv) (p : Pos) (col : Int)
    (callee : Expr) (args : ExprList) (cty : Option Ty) (resolved : String) (index : Int)
    (d : FunDecl) (name : String) (beh : HostBeh) (log : List Event)
    (hres : resolved ≠ "") (hd : resolveStatic ρ.funs resolved index = some d)
    (href : d.ref = .host name beh) (hlazy : d.isLazy = false) :
    eval (f+1) dbg ρ (.call p col callee args cty resolved index) log =
      seq (seq (evalList f dbg ρ args log) fun vs l => hostStrict name beh vs.toList l)
        fun v l => recDbg dbg v col l := by
  rw [eval_call_static' _ _ _ _ _ _ _ _ _ _ _ hres hd, href, hlazy, callFun_strict_host']

example : resolveStatic [⟨.fn "h" (.cons .num .nil) .num, .host "h" (.retArg 0), false⟩]
    "λ h (num)" (-1) = some ⟨.fn "h" (.cons .num .nil) .num, .host "h" (.retArg 0), false⟩ := by
  rfl

theorem host_invocation_event (name : String) (beh : HostBeh) (vs : List Val) (l : List Event) :
    (hostStrict name beh vs l).2 = Event.call name (vs.map Val.render) :: l :=
  hostStrict_log name beh vs l

/-- a dynamically dispatched call: the callee expression first, then the call as above -/
theorem dynamic_call_order (f : Nat) (dbg : Bool) (ρ : REnv) (p : Pos) (col : Int)
    (callee : Expr) (args : ExprList) (cty : Option Ty) (index : Int) (log : List Event) :
    eval (f+1) dbg ρ (.call p col callee args cty "" index) log =
      seq (seq (eval f dbg ρ callee log) fun fv l1 =>
            match fv with
            | .fn (.fn _ _ _) ref isLazy => callFun f dbg ρ ref isLazy args l1
            | _ => (.error (.stuck "cast:fun"), l1))
        fun v l => recDbg dbg v col l :=
  eval_call_dynamic' f dbg ρ p col callee args cty index log

/-- list literal: the elements in order -/
theorem list_order (f : Nat) (dbg : Bool) (ρ : REnv) (p : Pos) (a : Expr) (as : ExprList)
    (ty : Option Ty) (log : List Event) :
    eval (f+1) dbg ρ (.list p (.cons a as) ty) log =
      seq (evalList f dbg ρ (.cons a as) log) fun vs l =>
        match ty with
        | some t => (.ok (.list t vs), l)
        | none => (.error (.stuck "list-untyped"), l) :=
  eval_list' f dbg ρ p a as ty log

/-- map literal: entry by entry, the key before its value -/
theorem map_order (f : Nat) (dbg : Bool) (ρ : REnv) (p : Pos) (k v : Expr) (ps : PairList)
    (t : Ty) (log : List Event) :
    eval (f+1) dbg ρ (.map p (.cons k v ps) (some t)) log =
      seq (evalPairs f dbg ρ (.cons k v ps) .nil log) fun es l => (.ok (.map t es), l) :=
  eval_map' f dbg ρ p k v ps t log

theorem map_entries_order (f : Nat) (dbg : Bool) (ρ : REnv) (k v : Expr) (ps : PairList)
    (acc : EntryList) (log : List Event) :
    evalPairs f dbg ρ (.cons k v ps) acc log =
      seq (eval f dbg ρ k log) fun kv l1 =>
        match kv.key? with
        | some (t, ks) =>
          seq (eval f dbg ρ v l1) fun vv l2 => evalPairs f dbg ρ ps (acc.insert t ks vv) l2
        | none => (.error (.stuck "invalid map key type"), l1) :=
  evalPairs_cons' f dbg ρ k v ps acc log

/-- object literal: the field values in order -/
theorem obj_order (f : Nat) (dbg : Bool) (ρ : REnv) (p : Pos) (n : String) (a : Expr)
    (fs : FieldEList) (ty : Option Ty) (log : List Event) :
    eval (f+1) dbg ρ (.obj p (.cons n a fs) ty) log =
      seq (evalFields f dbg ρ (.cons n a fs) log) fun vs l =>
        match ty with
        | some t => (.ok (.obj t vs), l)
        | none => (.error (.stuck "obj-untyped"), l) :=
  eval_obj' f dbg ρ p n a fs ty log

theorem obj_fields_order (f : Nat) (dbg : Bool) (ρ : REnv) (n : String) (a : Expr)
    (fs : FieldEList) (log : List Event) :
    evalFields f dbg ρ (.cons n a fs) log =
      seq (eval f dbg ρ a log) fun v l1 =>
      seq (evalFields f dbg ρ fs l1) fun vs l2 => (.ok (.cons v vs), l2) :=
  evalFields_cons' f dbg ρ n a fs log

/-- subscript: the container, then the index (`subscriptStep` evaluates `idx` once, for a list
or a map container, and not at all otherwise), then the lookup -/
theorem subscript_order (f : Nat) (dbg : Bool) (ρ : REnv) (p : Pos) (col : Int)
    (var idx : Expr) (vty : Option Ty) (log : List Event) :
    eval (f+1) dbg ρ (.subscript p col var idx vty) log =
      seq (eval f dbg ρ var log) fun x l1 =>
      seq (subscriptStep f dbg ρ idx x l1) fun v l2 => recDbg dbg v col l2 :=
  eval_subscript' f dbg ρ p col var idx vty log

/-! ## the guarded lookup -/

/-- `if(isset(m,k), m[k], d)` over a map value `m`, a primitive key value `k` and any `d`
evaluates to the entry when the key is present and to `d` otherwise, -/
theorem guard_value (fuel : Nat) (dbg : Bool) (ρ : REnv) (pos : Pos) (col : Int)
    (m k d : String) (a1 a2 a3 : Option Ty) (ty : Ty) (es : EntryList) (kv dv : Val)
    (t : Kind) (ks : String) (log : List Event)
    (hf : GuardFuns ρ.funs)
    (hm : ρ.lookupVar m = some (.map ty es)) (hk : ρ.lookupVar k = some kv)
    (hkey : kv.key? = some (t, ks)) (hd : ρ.lookupVar d = some dv) :
    (eval (fuel+3) dbg ρ (guardTree pos col m k d a1 a2 a3) log).1 =
      .ok (match es.find? t ks with
           | some v => v
           | none => dv) :=
  Yae.guard_value fuel dbg ρ pos col m k d a1 a2 a3 ty es kv dv t ks log hf hm hk hkey hd

/-- hence it never fails with a missing key (nor with anything else). -/
theorem guard_safe (fuel : Nat) (dbg : Bool) (ρ : REnv) (pos : Pos) (col : Int)
    (m k d : String) (a1 a2 a3 : Option Ty) (ty : Ty) (es : EntryList) (kv dv : Val)
    (t : Kind) (ks : String) (log : List Event)
    (hf : GuardFuns ρ.funs)
    (hm : ρ.lookupVar m = some (.map ty es)) (hk : ρ.lookupVar k = some kv)
    (hkey : kv.key? = some (t, ks)) (hd : ρ.lookupVar d = some dv) :
    ∀ x, (eval (fuel+3) dbg ρ (guardTree pos col m k d a1 a2 a3) log).1 ≠ .error x := by
  intro x
  rw [guard_value fuel dbg ρ pos col m k d a1 a2 a3 ty es kv dv t ks log hf hm hk hkey hd]
  intro h; cases h

/-- non-vacuity: the built-in table, a map without the key `"x"`, the key `"x"`, a default -/
example : GuardFuns builtinFuns ∧
    (⟨[("m", .map (.map .str .num) .nil), ("k", .str "x"), ("d", .num 0)], builtinFuns, {}⟩ :
      REnv).lookupVar "m" = some (.map (.map .str .num) .nil) ∧
    (⟨[("m", .map (.map .str .num) .nil), ("k", .str "x"), ("d", .num 0)], builtinFuns, {}⟩ :
      REnv).lookupVar "k" = some (.str "x") ∧
    (Val.str "x").key? = some (.str, Num.quote "x") ∧
    (⟨[("m", .map (.map .str .num) .nil), ("k", .str "x"), ("d", .num 0)], builtinFuns, {}⟩ :
      REnv).lookupVar "d" = some (.num 0) :=
  ⟨guardFuns_builtin, rfl, rfl, rfl, rfl⟩

/-- without the guard the same lookup does fail: `m[k]` on the map without the key -/
example : (eval 2 false
    ⟨[("m", .map (.map .str .num) .nil), ("k", .str "x")], builtinFuns, {}⟩
    (.subscript Pos.unknown 0 (.ident Pos.unknown "m") (.ident Pos.unknown "k") none) []).1 =
    .error .missingKey := by
  rw [eval_subscript', eval_ident']
  have h1 : (⟨[("m", .map (.map .str .num) .nil), ("k", .str "x")], builtinFuns, {}⟩ :
      REnv).lookupVar "m" = some (.map (.map .str .num) .nil) := rfl
  have h2 : (⟨[("m", .map (.map .str .num) .nil), ("k", .str "x")], builtinFuns, {}⟩ :
      REnv).lookupVar "k" = some (.str "x") := rfl
  simp only [h1, recDbg_apply, seq_ok, subscriptStep, eval_ident', h2, Val.key?,
    EntryList.find?, seq_error]

/-! ## determinacy -/

/-- The result and the log of events are a function of the program, the environment and the
incoming log: two runs from equal inputs are equal. -/
theorem determined (f₁ f₂ : Nat) (d₁ d₂ : Bool) (ρ₁ ρ₂ : REnv) (e₁ e₂ : Expr)
    (l₁ l₂ : List Event) (hf : f₁ = f₂) (hd : d₁ = d₂) (hρ : ρ₁ = ρ₂) (he : e₁ = e₂)
    (hl : l₁ = l₂) : eval f₁ d₁ ρ₁ e₁ l₁ = eval f₂ d₂ ρ₂ e₂ l₂ := by
  subst hf hd hρ he hl; rfl

end Yae.C06

#print axioms Yae.C06.if_lazy
#print axioms Yae.C06.if_true
#print axioms Yae.C06.if_false
#print axioms Yae.C06.if_cond_fails
#print axioms Yae.C06.and_lazy
#print axioms Yae.C06.or_lazy
#print axioms Yae.C06.lazy_host
#print axioms Yae.C06.lazy_host_step
#print axioms Yae.C06.operands_in_order
#print axioms Yae.C06.operands_nil
#print axioms Yae.C06.strict_order_builtin
#print axioms Yae.C06.strict_order_host
#print axioms Yae.C06.host_invocation_event
#print axioms Yae.C06.dynamic_call_order
#print axioms Yae.C06.list_order
#print axioms Yae.C06.map_order
#print axioms Yae.C06.map_entries_order
#print axioms Yae.C06.obj_order
#print axioms Yae.C06.obj_fields_order
#print axioms Yae.C06.subscript_order
#print axioms Yae.C06.guard_value
#print axioms Yae.C06.guard_safe
#print axioms Yae.C06.determined
