/-
  C07. "Invoking a compiled expression with an environment in which any name known at compile
  time is missing, or bound to a value of a different type, returns an error and evaluates
  nothing; invoking it with any environment whose bindings have equal types (extra names allowed,
  host data of a different but equally-shaped Go type allowed) is accepted and evaluates
  normally."

  Model: `Yae.envCheck tenv venv` (`Yae/Model/Conv.lean`) is `(*Expr).envCheck(env0, env1)` of
  `/repo/facade.go`; `tenv` is the compile-time environment (`types.Env`, a Go map: names are
  distinct there), `venv` the run-time environment (`val.Env`).  Proofs: `Yae.Proofs.ConvEnv`.

  What the model's `envCheck` does with duplicates (Go maps have none, lists may):
  * EVERY binding `(n, t)` of `tenv` is checked, also when `n` occurs twice in `tenv`;
  * a name is looked up in `venv` by its FIRST binding (`lookupVal`).

  "evaluates nothing" / "evaluates normally": the model has no separate facade function.  In Go
  the callable built by `(*Expr).makeCallable` is
        env1 := ValEnvOf(v);  err = envCheck(env0, env1);  if err != nil { return nil, err }
        vl = closure(env1.Inherit(runtime))
  i.e. the compiled closure (`Yae.eval`) is entered only after `envCheck` returned no error, and
  is entered with exactly the checked `env1`.  The differential stream `conv`/`api` ties this
  sequencing to the Go code; on the Lean side "accepted" is `envCheck tenv venv = .ok ()` and what
  evaluation then does is the subject of C01/C02 (`Yae.Sound.EnvOK` is what an accepted
  environment of well-formed values provides, see `accepted_env_ok` below).

  "host data of a different but equally-shaped Go type": run-time values (`Val`) and types (`Ty`)
  carry no Go type identity at all — `only_types_matter`: the verdict is a function of the own
  types `v.typeOf` of the looked-up values; that equally shaped Go types convert to equal `Ty`s is
  C15 (`Yae.C15.shape_determines_type`).
-/
import Yae.Proofs.ConvEnv
import Yae.Spec.WF
namespace Yae.C07
open Yae Yae.ConvEnv

/-- **acceptance, exactly**: every compile-time binding finds (first run-time binding of that
name) a value whose own type is `types.Equals` to the declared type. -/
theorem accept_iff (tenv : List (String × Ty)) (venv : List (String × Val)) :
    envCheck tenv venv = .ok () ↔
      ∀ n t, (n, t) ∈ tenv → ∃ v, lookupVal venv n = some v ∧ tyEq t v.typeOf = true :=
  ConvEnv.accept_iff tenv venv

/-- **rejection, exactly**: an error is returned iff some compile-time name is missing or bound to
a value of a different type. -/
theorem reject_iff (tenv : List (String × Ty)) (venv : List (String × Val)) :
    (∃ e, envCheck tenv venv = .error e) ↔
      ∃ n t, (n, t) ∈ tenv ∧ (lookupVal venv n = none ∨
        ∃ v, lookupVal venv n = some v ∧ tyEq t v.typeOf = false) :=
  ConvEnv.reject_iff tenv venv

/-- a compile-time name that is missing at run time: an error -/
theorem reject_missing {tenv : List (String × Ty)} {venv : List (String × Val)} {n : String}
    {t : Ty} (hm : (n, t) ∈ tenv) (hv : lookupVal venv n = none) :
    ∃ e, envCheck tenv venv = .error e :=
  (reject_iff tenv venv).2 ⟨n, t, hm, Or.inl hv⟩

example : envCheck [("x", .num)] [("y", .num 1.0)] = .error .undefined := by rfl

/-- a compile-time name bound to a value of a different type: an error -/
theorem reject_mismatch {tenv : List (String × Ty)} {venv : List (String × Val)} {n : String}
    {t : Ty} {v : Val} (hm : (n, t) ∈ tenv) (hv : lookupVal venv n = some v)
    (ht : tyEq t v.typeOf = false) : ∃ e, envCheck tenv venv = .error e :=
  (reject_iff tenv venv).2 ⟨n, t, hm, Or.inr ⟨v, hv, ht⟩⟩

example : envCheck [("x", .num)] [("x", .str "1")] = .error .mismatch := by rfl

/-- the reported class: `undefined` iff there are offences and all of them are missing names
(`mismatch` / `mixed` otherwise; Go reports the first offender its map iteration meets) -/
theorem undefined_iff (tenv : List (String × Ty)) (venv : List (String × Val)) :
    envCheck tenv venv = .error .undefined ↔
      (∃ n t, (n, t) ∈ tenv ∧ lookupVal venv n = none) ∧
      ∀ n t, (n, t) ∈ tenv → ∀ v, lookupVal venv n = some v → tyEq t v.typeOf = true :=
  ConvEnv.envCheck_undefined_iff tenv venv

/-- **extra names allowed**: run-time bindings for names the compile-time environment does not
know, placed anywhere among the others, do not change the verdict. -/
theorem extra_names_ok (tenv : List (String × Ty)) (venv pre post : List (String × Val))
    (hpre : ∀ p ∈ pre, ∀ t, (p.1, t) ∉ tenv) (hpost : ∀ p ∈ post, ∀ t, (p.1, t) ∉ tenv) :
    envCheck tenv (pre ++ venv ++ post) = envCheck tenv venv :=
  ConvEnv.extra_names_ok tenv venv pre post hpre hpost

example : envCheck [("x", .num)] ([("a", .str "")] ++ [("x", .num 1.0)] ++ [("b", .bool true)])
    = .ok () := by rfl

/-- **order is irrelevant** (both environments are Go maps, iterated in unspecified order): the
verdict, including the class of the error, is invariant under permuting the compile-time bindings
and under permuting run-time bindings with distinct names. -/
theorem order_irrelevant {tenv tenv' : List (String × Ty)} {venv venv' : List (String × Val)}
    (ht : tenv.Perm tenv') (hv : venv.Perm venv') (hnd : (venv.map Prod.fst).Nodup) :
    envCheck tenv venv = envCheck tenv' venv' :=
  ConvEnv.order_irrelevant ht hv hnd

example : ([("x", Ty.num), ("y", Ty.str)]).Perm [("y", .str), ("x", .num)] ∧
    ([("x", Val.num 1.0), ("y", Val.str "")]).Perm [("y", .str ""), ("x", .num 1.0)] ∧
    (([("x", Val.num 1.0), ("y", Val.str "")]).map Prod.fst).Nodup :=
  ⟨List.Perm.swap _ _ _, List.Perm.swap _ _ _, by decide⟩

/-- without distinct run-time names the order does matter (first binding wins) — the hypothesis
of `order_irrelevant` cannot be dropped; a Go map cannot hold such an environment -/
example : envCheck [("x", .num)] [("x", .num 1.0), ("x", .str "")] = .ok () ∧
    envCheck [("x", .num)] [("x", .str ""), ("x", .num 1.0)] = .error .mismatch := ⟨by rfl, by rfl⟩

/-- **only the types matter**: two run-time environments that bind every name to values of the
same own type get the same verdict — nothing else about the host data (Go type names, pointer
wrapping, field declaration order) is visible to the check. -/
theorem only_types_matter {tenv : List (String × Ty)} {venv venv' : List (String × Val)}
    (h : ∀ n, (lookupVal venv n).map Val.typeOf = (lookupVal venv' n).map Val.typeOf) :
    envCheck tenv venv = envCheck tenv venv' := by
  rw [envCheck_eq, envCheck_eq]
  congr 1
  unfold errs
  congr 1
  funext p
  have hp := h p.1
  show checkBinding venv p.1 p.2 = checkBinding venv' p.1 p.2
  unfold checkBinding
  cases h1 : lookupVal venv p.1 <;> cases h2 : lookupVal venv' p.1 <;>
    simp_all

example : ∀ n, (lookupVal [("x", Val.str "a")] n).map Val.typeOf =
    (lookupVal [("x", Val.str "b")] n).map Val.typeOf := by
  intro n; by_cases h : "x" = n <;> simp [lookupVal, h, Val.typeOf]

/-- **field order is irrelevant**: a value whose own type is structurally the declared type —
object fields compared by name, in any order — passes. -/
theorem field_order_ok {venv : List (String × Val)} {n : String} {t : Ty} {v : Val}
    (hw : t.wf = true) (hv : lookupVal venv n = some v) (hs : StructEq t v.typeOf) :
    envCheck [(n, t)] venv = .ok () := by
  rw [accept_iff]
  intro n' t' hm
  simp only [List.mem_singleton, Prod.mk.injEq] at hm
  obtain ⟨rfl, rfl⟩ := hm
  exact ⟨v, hv, tyEq_complete _ _ hw hs⟩

/-- declared `{a: num, b: str}`, supplied an object whose own type lists `b` first -/
example : envCheck [("o", .obj (.cons "a" .num (.cons "b" .str .nil)))]
    [("o", .obj (.obj (.cons "b" .str (.cons "a" .num .nil)))
            (.cons (.str "x") (.cons (.num 1.0) .nil)))] = .ok () := by rfl

/-- … and `field_order_ok` applies to it -/
example : (Ty.obj (.cons "a" .num (.cons "b" .str .nil))).wf = true ∧
    StructEq (.obj (.cons "a" .num (.cons "b" .str .nil)))
      (Val.obj (.obj (.cons "b" .str (.cons "a" .num .nil)))
        (.cons (.str "x") (.cons (.num 1.0) .nil))).typeOf :=
  ⟨by decide, tyEq_sound _ _ (by decide) (by decide)⟩

/-- **accepted ⇒ what evaluation needs** (the `vars` premise of `Yae.Sound.EnvOK`, the hypothesis
of type soundness `Yae.C01.preservation` / `Yae.C02.progress`): when the check accepts and the
run-time values are well formed (C15: converted host data is), every declared variable is bound
to a well-formed value of its declared type. -/
theorem accepted_env_ok {tenv : List (String × Ty)} {venv : List (String × Val)}
    {funs : List FunDecl} {reserved : List String} {ext : Externs}
    (hacc : envCheck tenv venv = .ok ())
    (hwf : ∀ p ∈ venv, Yae.Sound.WF p.2 = true) :
    ∀ x T, (TEnv.lookupVar ⟨tenv, funs, reserved⟩ x = some T) →
      ∃ v, (REnv.lookupVar ⟨venv, funs, ext⟩ x) = some v ∧ Yae.Sound.HasTy v T := by
  intro x T hx
  have hm : (x, T) ∈ tenv := by
    unfold TEnv.lookupVar at hx
    simp only [Option.map_eq_some_iff] at hx
    obtain ⟨p, hp, rfl⟩ := hx
    have h1 := List.find?_some hp
    have h2 := List.mem_of_find?_eq_some hp
    simp only [beq_iff_eq] at h1
    rw [← h1]; exact h2
  obtain ⟨v, hv, ht⟩ := (accept_iff tenv venv).1 hacc x T hm
  refine ⟨v, hv, ?_, ht⟩
  unfold lookupVal at hv
  simp only [Option.map_eq_some_iff] at hv
  obtain ⟨p, hp, rfl⟩ := hv
  exact hwf p (List.mem_of_find?_eq_some hp)

example : envCheck [("x", .num)] [("x", .num 1.0)] = .ok () ∧
    ∀ p ∈ [("x", Val.num 1.0)], Yae.Sound.WF p.2 = true := by
  refine ⟨by rfl, ?_⟩
  intro p hp
  simp only [List.mem_singleton] at hp
  subst hp; rfl

end Yae.C07

#print axioms Yae.C07.accept_iff
#print axioms Yae.C07.reject_iff
#print axioms Yae.C07.reject_missing
#print axioms Yae.C07.reject_mismatch
#print axioms Yae.C07.undefined_iff
#print axioms Yae.C07.extra_names_ok
#print axioms Yae.C07.order_irrelevant
#print axioms Yae.C07.only_types_matter
#print axioms Yae.C07.field_order_ok
#print axioms Yae.C07.accepted_env_ok
