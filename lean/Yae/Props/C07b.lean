/-
  C07 at the level of the engine object (`Yae/Model/Engine.lean`, `facade.go` `makeCallable`):
  "Invoking a compiled expression with an environment in which any name known at compile time is
  missing, or bound to a value of a different type, returns an error AND EVALUATES NOTHING;
  invoking it with any environment whose bindings have equal types … is accepted and evaluates
  normally."

  `Yae/Props/C07.lean` decides WHEN the environment check accepts; this file states what the
  Callable does with the verdict, for every engine, compiler, Callable and environment:
    * rejected: the outcome is the environment error and the event log is EMPTY — no host call,
      no print line, no debug entry (`reject_evaluates_nothing`, and in terms of the bindings
      `missing_or_mistyped_evaluates_nothing`);
    * accepted: the outcome is exactly the compiled tree evaluated on the run-time bindings
      (`accept_evaluates_normally`, `equal_types_evaluate_normally`);
    * extra run-time names neither change the verdict nor the evaluation
      (`C13.extra_bindings_irrelevant`, `C07.extra_names_ok`).
-/
import Yae.Props.C07
import Yae.Model.Engine
namespace Yae.C07
open Yae Yae.Facade

/-- rejected ⇒ the error, and nothing was evaluated (empty event log) -/
theorem reject_evaluates_nothing (e : Engine) (c : Callable) (venv : List (String × Val))
    (ext : Externs) {err : EnvErr} (h : envCheck c.tenv venv = .error err) :
    e.invoke c venv ext = (.error (.env err), []) := by
  simp [Engine.invoke, h]

/-- accepted ⇒ the compiled tree evaluated on the run-time bindings, nothing else -/
theorem accept_evaluates_normally (e : Engine) (c : Callable) (venv : List (String × Val))
    (ext : Externs) (h : envCheck c.tenv venv = .ok ()) :
    e.invoke c venv ext =
      match runEval c.backend.dbg ⟨venv, e.tableFor c, ext⟩ c.tree with
      | (.ok v, evs) => (.ok v, evs)
      | (.error f, evs) => (.error (.fail f), evs) := by
  unfold Engine.invoke
  rw [h]
  rfl

/-- a compile-time name missing at run time, or bound to a value of another type: an environment
error is returned and the event log is empty -/
theorem missing_or_mistyped_evaluates_nothing (e : Engine) (c : Callable)
    (venv : List (String × Val)) (ext : Externs) {n : String} {t : Ty} (hm : (n, t) ∈ c.tenv)
    (hbad : lookupVal venv n = none ∨ ∃ v, lookupVal venv n = some v ∧ tyEq t v.typeOf = false) :
    ∃ err, e.invoke c venv ext = (.error (.env err), []) := by
  obtain ⟨err, herr⟩ := (reject_iff c.tenv venv).2 ⟨n, t, hm, hbad⟩
  exact ⟨err, reject_evaluates_nothing e c venv ext herr⟩

/-- every compile-time name bound to a value of an equal type (extra names allowed): accepted,
and the outcome is never an environment error -/
theorem equal_types_evaluate_normally (e : Engine) (c : Callable) (venv : List (String × Val))
    (ext : Externs)
    (h : ∀ n t, (n, t) ∈ c.tenv → ∃ v, lookupVal venv n = some v ∧ tyEq t v.typeOf = true) :
    ∀ err, (e.invoke c venv ext).1 ≠ .error (.env err) := by
  intro err
  rw [accept_evaluates_normally e c venv ext ((accept_iff c.tenv venv).2 h)]
  split <;> simp

-- non-vacuity: a Callable compiled from `x + 1` against {x: num}, invoked without `x`
example : ∃ err, (Engine.new.invoke ⟨[("x", .num)], .num, .ident default "x", [], .vm⟩ [("y", .num 1.0)]) =
    (.error (.env err), []) :=
  missing_or_mistyped_evaluates_nothing _ _ _ {} (n := "x") (t := .num) (by simp) (Or.inl rfl)

end Yae.C07

#print axioms Yae.C07.reject_evaluates_nothing
#print axioms Yae.C07.accept_evaluates_normally
#print axioms Yae.C07.missing_or_mistyped_evaluates_nothing
#print axioms Yae.C07.equal_types_evaluate_normally
