/-
  C08. "For every operator table … the parser returns exactly the tree dictated by those
  declarations: removing parentheses that the declarations make redundant never changes the tree,
  required ones are respected, and an operator declared non-associative can never be chained
  with itself without parentheses. Every node of the tree records the source span that exactly
  covers the text it was parsed from, and malformed input is rejected with a syntax error."

  Model: `Yae.Model.Parser` (`parse ops times toks`).  Proofs: `Yae.Proofs.Parse` (unfolding
  lemmas, `Expr.All`, `NodeOK`), `Yae.Proofs.ParseInv` (the node-wise invariant of the seven
  mutually recursive parser functions, one induction on the fuel), `Yae.Proofs.ParseNodes`
  (the two instances), `Yae.Proofs.ParseFuel`.

  WHAT IS PROVED HERE (all for every operator table, token list, `strtotime` table, fuel):
  * `nonassoc`      — in every returned tree, at every `Binary` node of fixity `INFIX_N`, neither
                      direct child is a `Binary` node with the same operator name.
  * `span_composed` — in every returned tree, every operator / member / call / subscript node's
                      span is `pos.Range` of its first child (or operator token) and its last
                      child (or operator / field token), and that range is well oriented.
  * `outcomes`      — the result is a tree, the syntax error, or (model only) a time literal
                      missing from the supplied `strtotime` table; never `.fuel`.
  * `node_invariant`— the general principle behind the first two.

  WHAT IS NOT PROVED (labelled, not hidden):
  * the completeness half of the first sentence ("exactly the tree dictated by the
    declarations", redundant / required parentheses): no declarative grammar is given here;
  * `yield` (the tree determines the consumed tokens): not attempted;
  * full nesting of spans ("children's spans lie within the node's span"): needs the token
    positions to be increasing (which `Yae.C09.lex_ordered` provides for lexed input) and an
    invariant tracking the cursor; `span_composed` is the part that holds for ARBITRARY token
    lists.  For `Group`, `List`, `Map`, `Obj` the span runs from the opening to the closing token,
    which are not part of the tree, so nothing can be said about them without the token list.
  * non-vacuity by evaluation: `parse` compares binding powers, which are `Float`s and opaque to
    the kernel, so no `example : parse … = .ok …` can be kernel-checked (not even for a single
    identifier: `pInfix` asks `0 > 0`).  That `parse` does return trees is witnessed by the
    differential-test streams of the parser model.  The examples below show instead that the
    conclusions are not trivially true: they hold of the grouped tree and fail for the chained one.
-/
import Yae.Proofs.ParseNodes
import Yae.Proofs.ParseFuel
namespace Yae.C08
open Yae

/-- The general principle: a predicate that holds of every node at the moment the parser builds
it (`NodeOK P`: for each of the sixteen node-building places of `factory.go`, given that the
`pos.Range` involved succeeded and, for a binary node, that `infixNCheck` accepted it) holds at
every node of every tree `parseWith` returns. -/
theorem node_invariant {P : Expr → Prop} (C : NodeOK P) {fuel : Nat} {ops : List Operator}
    {times : List (String × Int)} {toks : List Token} {t : Expr}
    (h : parseWith fuel ops times toks = .ok t) : t.All P :=
  parseWith_all C h

/-- `NodeOK` is satisfiable non-trivially: see `noChain_nodeOK`, `span_nodeOK`. -/
example : NodeOK Expr.noChainHere ∧ NodeOK Expr.spanHere := ⟨noChain_nodeOK, span_nodeOK⟩

/-! ## non-associative operators -/

/-- An operator declared non-associative is never chained with itself without parentheses: in
the tree returned by `parse`, at EVERY node (`Expr.All`) that is a `Binary` of fixity `INFIX_N`
named `n`, neither the left nor the right child is itself a `Binary` named `n`
(`Expr.noChainHere`).  A parenthesised operand is a `Group` node, hence allowed. -/
theorem nonassoc {ops : List Operator} {times : List (String × Int)} {toks : List Token}
    {t : Expr} (h : parse ops times toks = .ok t) : t.All Expr.noChainHere :=
  parseWith_all noChain_nodeOK h

/-- The conclusion excludes the tree of `a == b == c` (either nesting) … -/
example :
    ¬ (Expr.binary Pos.zero "==" Pos.zero fixInfixN
        (.binary Pos.zero "==" Pos.zero fixInfixN (.ident Pos.zero "a") (.ident Pos.zero "b"))
        (.ident Pos.zero "c")).All Expr.noChainHere ∧
    ¬ (Expr.binary Pos.zero "==" Pos.zero fixInfixN (.ident Pos.zero "a")
        (.binary Pos.zero "==" Pos.zero fixInfixN (.ident Pos.zero "b") (.ident Pos.zero "c"))).All
        Expr.noChainHere := by
  simp [Expr.All, Expr.noChainHere, Expr.isBinaryNamed]

/-- … also below another operator (`a == b == c && d`, the shape of the former defect D10) … -/
example :
    ¬ (Expr.binary Pos.zero "&&" Pos.zero fixInfixL
        (.binary Pos.zero "==" Pos.zero fixInfixN
          (.binary Pos.zero "==" Pos.zero fixInfixN (.ident Pos.zero "a") (.ident Pos.zero "b"))
          (.ident Pos.zero "c"))
        (.ident Pos.zero "d")).All Expr.noChainHere := by
  simp [Expr.All, Expr.noChainHere, Expr.isBinaryNamed]

/-- … and admits `(a == b) == c`. -/
example :
    (Expr.binary Pos.zero "==" Pos.zero fixInfixN
      (.group Pos.zero
        (.binary Pos.zero "==" Pos.zero fixInfixN (.ident Pos.zero "a") (.ident Pos.zero "b")))
      (.ident Pos.zero "c")).All Expr.noChainHere := by
  simp [Expr.All, Expr.noChainHere, Expr.isBinaryNamed]

/-- How the check enters: `infixNCheck` accepts a binary node exactly under that condition. -/
theorem infixNCheck_accepts {rg : Pos} {n : String} {np : Pos} {fx : Nat} {l r e' : Expr}
    (h : infixNCheck (.binary rg n np fx l r) = .ok e') :
    e' = .binary rg n np fx l r ∧
    (fx = fixInfixN → l.isBinaryNamed n = false ∧ r.isBinaryNamed n = false) :=
  ⟨infixNCheck_ok h, infixNCheck_binary h⟩

example : infixNCheck (.binary Pos.zero "==" Pos.zero fixInfixN (.ident Pos.zero "a")
    (.ident Pos.zero "b")) = .ok (.binary Pos.zero "==" Pos.zero fixInfixN (.ident Pos.zero "a")
    (.ident Pos.zero "b")) := by
  simp [infixNCheck]

/-! ## spans -/

/-- Every node records the span composed from its parts (`Expr.spanHere`, with
`{a with idxEnd := b.idxEnd}` = `pos.Range(a, b)`, which keeps index, column and line of the
start and takes the end index of the end):
  `x op y`, `c ? a : b`  — from the span of the left-most child to that of the right-most child;
  `op x`                 — from the operator token to the operand;   `x op` — the converse;
  `o.f`                  — from the object to the field-name token;
  `f(args)`, `v[i]`      — starts where the callee / the indexed value starts;
and every such range is well oriented (start index ≤ index of the end part).

`span_nested` (children within the node) is NOT proved: see the header. -/
theorem span_composed {ops : List Operator} {times : List (String × Int)} {toks : List Token}
    {t : Expr} (h : parse ops times toks = .ok t) : t.All Expr.spanHere :=
  parseWith_all span_nodeOK h

/-- The conclusion is not trivial: a binary node whose span is that of its RIGHT child (what
`pos.Range` returned before the fix of D12) violates it. -/
example :
    ¬ (Expr.binary ⟨4, 5, 4, 0⟩ "+" ⟨2, 3, 2, 0⟩ fixInfixL (.ident ⟨0, 1, 0, 0⟩ "a")
        (.ident ⟨4, 5, 4, 0⟩ "b")).All Expr.spanHere ∧
    (Expr.binary ⟨0, 5, 0, 0⟩ "+" ⟨2, 3, 2, 0⟩ fixInfixL (.ident ⟨0, 1, 0, 0⟩ "a")
        (.ident ⟨4, 5, 4, 0⟩ "b")).All Expr.spanHere := by
  simp [Expr.All, Expr.spanHere, Expr.pos]

/-- At the root, for the common case of a binary tree: the root span starts with the left operand
and ends with the right operand. -/
theorem span_binary_root {ops : List Operator} {times : List (String × Int)} {toks : List Token}
    {p : Pos} {n : String} {np : Pos} {fx : Nat} {l r : Expr}
    (h : parse ops times toks = .ok (.binary p n np fx l r)) :
    p.idx = l.pos.idx ∧ p.col = l.pos.col ∧ p.line = l.pos.line ∧ p.idxEnd = r.pos.idxEnd ∧
    l.pos.idx ≤ r.pos.idx := by
  have := (span_composed h).here
  simp only [Expr.spanHere] at this
  obtain ⟨h1, h2⟩ := this
  subst h1
  exact ⟨rfl, rfl, rfl, rfl, h2⟩

/-! ## outcomes -/

/-- Malformed input is rejected through the error result: `parse` returns a tree, the syntax
error (every Go panic of the parser), or — an artefact of modelling `timelib.Strtotime` as a
finite table — `.externMiss`; with no operator of kind `<END-OF-FILE>` it never returns `.fuel`
(Go: does not terminate). -/
theorem outcomes {ops : List Operator} (hops : ∀ o ∈ ops, o.kind ≠ "<END-OF-FILE>")
    (times : List (String × Int)) (toks : List Token) :
    (∃ t, parse ops times toks = .ok t) ∨ parse ops times toks = .error .syntax ∨
      parse ops times toks = .error .externMiss := by
  have := parseWith_no_fuel hops times toks (fuel := parseFuel toks.length)
    (by unfold parseFuel; omega)
  unfold parse
  cases h : parseWith (parseFuel toks.length) ops times toks with
  | ok t => exact .inl ⟨t, rfl⟩
  | error e =>
    cases e
    · exact .inr (.inl rfl)
    · exact .inr (.inr rfl)
    · exact absurd h this

example : ∀ o ∈ [(⟨"==", 7, fixInfixN⟩ : Operator)], o.kind ≠ "<END-OF-FILE>" := by decide

end Yae.C08

#print axioms Yae.C08.node_invariant
#print axioms Yae.C08.nonassoc
#print axioms Yae.C08.infixNCheck_accepts
#print axioms Yae.C08.span_composed
#print axioms Yae.C08.span_binary_root
#print axioms Yae.C08.outcomes
