/-
  C08. "For every operator table … the parser returns exactly the tree dictated by those
  declarations: removing parentheses that the declarations make redundant never changes the tree,
  required ones are respected, and an operator declared non-associative can never be chained
  with itself without parentheses. Every node of the tree records the source span that exactly
  covers the text it was parsed from, and malformed input is rejected with a syntax error."

  Model: `Yae.Model.Parser` (`parse ops times toks`).  Proofs: `Yae.Proofs.Parse*`.

  DEFINITIONS (all declarative; none of them runs the parser)
  * `Yields env t i j` (`Proofs/ParseYield`): the tree `t` is read off the tokens `i … j-1` by the
    ambiguous context-free grammar of the language — which token may start / continue an
    expression is taken from the two tables of the grammar, no binding power is compared; nodes
    are built exactly as the model builds them (`pos.Range` checks included).
  * `Respects g t` (`Proofs/ParseRespects`): (R1) below a node open on the right, with
    right binding power `rbp`, every led-built node on the left spine of its last operand has
    `rbp < lbp`; (R2) under a led-built node with power `lbp`, no node open on the right on the
    right spine of its first operand has `rbp < lbp`; (R3) operands read with `expr(0)` and the
    root: `0 < lbp` along the left spine; a callee that is not a member node does not end in a
    member node; (R4) a non-associative operator is not chained with itself.
  * `WFGrammar g` / `WFOps ops` (`Proofs/ParseCompleteBase`, `ParseCompleteTop`): no
    `<END-OF-FILE>` entry; `)` `]` `}` `,` `:` have no infix entry; `)` `]` `:` have no prefix entry;
    no negative prefix power.  NaN, zero and negative infix powers are allowed.
  * `TokensOrdered toks`: the conclusion of `Yae.C09.lex_ordered` (positions in source order,
    no overlap, not empty, not negative).
  * `OpLexemes ops toks`: every token whose kind has an infix entry or a prefix-operator entry has
    `lexeme = kind` (operator nodes record the LEXEME, the tables are keyed by the KIND).

  WHAT IS PROVED HERE
  (for every operator table, token list, `strtotime` table, fuel)
  * `nonassoc`, `span_composed`, `outcomes`, `node_invariant` — as before.
  (for every operator table without an operator of kind `<END-OF-FILE>`)
  * `yields_prefix`, `yields` — the returned tree yields the tokens it was parsed from: all of
    them when no token has the kind `<END-OF-FILE>`.
  * `span_exact` — with `TokensOrdered`: EVERY node of the returned tree yields a token range
    `[a, b)`, `a < b`, and records exactly its span: index, column, line of token `a`, end index
    of token `b-1`.
  * `span_nested` — with `TokensOrdered`: at every node the children's spans (and the recorded
    operator / field-name position) are not empty, lie within the node's span, are pairwise
    disjoint and in source order.  `lexed_ordered`: lexed input is `TokensOrdered`.
  * `respects` — with `OpLexemes`: the returned tree respects the declarations.
  (for every WELL-FORMED operator table)
  * `complete` — a tree that yields all the tokens and respects the declarations is what `parse`
    returns; `unique` — there is at most one such tree; `exactly` — `parse … = .ok t` IF AND
    ONLY IF `t` yields the tokens and respects the declarations.
  * `required_parens` — a tree containing `Group` nodes that yields the tokens (so the
    parentheses are in the text) and respects the declarations is returned WITH those nodes.
  * `wf_builtin`, `WFOps.grammar` — the built-in table is well formed; a well-formed table gives a
    well-formed grammar.  `closer_needed`, `nonneg_prefix_needed`: completeness FAILS without
    the clauses "`)` has no infix entry" / "no negative prefix power" (kernel-checked).

  * `redundant_parens` — REDUNDANT PARENTHESES NEVER CHANGE THE TREE: if `parse` returns `t` on
    `toks`, the node `Group p e` of `t` was read from the tokens `[a, b]`, and `t` without that
    node still respects the declarations, then on the token list without the tokens `a` and `b`
    `parse` returns `t` without that node (`UG p e t t'`: one occurrence of `Group p e` replaced
    by `e`; the spans recorded at its ancestors may change, nothing else).  Proof: the yield of
    `t` is transported along the deletion of the two tokens (`Proofs/ParseShift`,
    `ParseUngroup*`), then `complete`.  Needs `TokensOrdered` (so that `pos.Range` succeeds on
    the new spans).  The case `(o.f)(x)` / `o.f(x)` is covered and is no exception at the level
    of the parse tree: without the group the callee is a member node, which is the method-call
    form, and that is exactly what `parse` returns for `o.f(x)` (kernel-checked example below).

  * `lexed_opLexemes`, `exactly_lexed`, `span_nested_lexed` — FROM THE SOURCE TEXT: for lexed input
    the hypotheses on the tokens (`OpLexemes`, `TokensOrdered`, no end-of-file token) are theorems
    about `lex` (`Proofs/LexOpLexemes`), provided no operator is named `<num>`, `<str>`, `<time>`
    or `<sym>`.

  WHAT IS NOT PROVED
  * In `redundant_parens` the hypothesis "still respects" is stated for every tree related to `t`
    by `UG p e` (they differ only in the spans of the ancestors, which `Respects` ignores).
  * Non-vacuity: binding powers are now bits (`Yae.BP`), so `parse` is evaluated by the kernel:
    see the examples at the end.
-/
import Yae.Proofs.ParseCompleteTop
import Yae.Proofs.ParseUngroupTop
import Yae.Proofs.ParseYieldAll
import Yae.Props.C09
import Yae.Proofs.LexOpLexemes
namespace Yae.C08
open Yae

/-- The general principle: a predicate that holds of every node at the moment the parser builds
it (`NodeOK P`: for each of the sixteen node-building places of `factory.go`, given that the
`pos.Range` involved succeeded and, for a binary node, that `infixNCheck` accepted it) holds at
every node of every tree `parseWith` returns. -/
theorem node_invariant {P : Expr → Prop} (C : NodeOK P) {fuel : Nat} {ops : List Operator}
    {times : List (String × Int)} {toks : List Token} {t : Expr}
    (h : parseWith fuel ops times toks = .ok t) : t.All P :=
  parseWith_all C h

/-- `NodeOK` is satisfiable non-trivially: see `noChain_nodeOK`, `span_nodeOK`. -/
example : NodeOK Expr.noChainHere ∧ NodeOK Expr.spanHere := ⟨noChain_nodeOK, span_nodeOK⟩

/-! ## non-associative operators -/

/-- An operator declared non-associative is never chained with itself without parentheses: in
the tree returned by `parse`, at EVERY node (`Expr.All`) that is a `Binary` of fixity `INFIX_N`
named `n`, neither the left nor the right child is itself a `Binary` named `n`
(`Expr.noChainHere`).  A parenthesised operand is a `Group` node, hence allowed. -/
theorem nonassoc {ops : List Operator} {times : List (String × Int)} {toks : List Token}
    {t : Expr} (h : parse ops times toks = .ok t) : t.All Expr.noChainHere :=
  parseWith_all noChain_nodeOK h

/-- The conclusion excludes the tree of `a == b == c` (either nesting) … -/
example :
    ¬ (Expr.binary Pos.zero "==" Pos.zero fixInfixN
        (.binary Pos.zero "==" Pos.zero fixInfixN (.ident Pos.zero "a") (.ident Pos.zero "b"))
        (.ident Pos.zero "c")).All Expr.noChainHere ∧
    ¬ (Expr.binary Pos.zero "==" Pos.zero fixInfixN (.ident Pos.zero "a")
        (.binary Pos.zero "==" Pos.zero fixInfixN (.ident Pos.zero "b") (.ident Pos.zero "c"))).All
        Expr.noChainHere := by
  simp [Expr.All, Expr.noChainHere, Expr.isBinaryNamed]

/-- … also below another operator (`a == b == c && d`, the shape of the former defect D10) … -/
example :
    ¬ (Expr.binary Pos.zero "&&" Pos.zero fixInfixL
        (.binary Pos.zero "==" Pos.zero fixInfixN
          (.binary Pos.zero "==" Pos.zero fixInfixN (.ident Pos.zero "a") (.ident Pos.zero "b"))
          (.ident Pos.zero "c"))
        (.ident Pos.zero "d")).All Expr.noChainHere := by
  simp [Expr.All, Expr.noChainHere, Expr.isBinaryNamed]

/-- … and admits `(a == b) == c`. -/
example :
    (Expr.binary Pos.zero "==" Pos.zero fixInfixN
      (.group Pos.zero
        (.binary Pos.zero "==" Pos.zero fixInfixN (.ident Pos.zero "a") (.ident Pos.zero "b")))
      (.ident Pos.zero "c")).All Expr.noChainHere := by
  simp [Expr.All, Expr.noChainHere, Expr.isBinaryNamed]

/-- How the check enters: `infixNCheck` accepts a binary node exactly under that condition. -/
theorem infixNCheck_accepts {rg : Pos} {n : String} {np : Pos} {fx : Nat} {l r e' : Expr}
    (h : infixNCheck (.binary rg n np fx l r) = .ok e') :
    e' = .binary rg n np fx l r ∧
    (fx = fixInfixN → l.isBinaryNamed n = false ∧ r.isBinaryNamed n = false) :=
  ⟨infixNCheck_ok h, infixNCheck_binary h⟩

example : infixNCheck (.binary Pos.zero "==" Pos.zero fixInfixN (.ident Pos.zero "a")
    (.ident Pos.zero "b")) = .ok (.binary Pos.zero "==" Pos.zero fixInfixN (.ident Pos.zero "a")
    (.ident Pos.zero "b")) := by
  simp [infixNCheck]

/-! ## spans -/

/-- Every node records the span composed from its parts (`Expr.spanHere`, with
`{a with idxEnd := b.idxEnd}` = `pos.Range(a, b)`, which keeps index, column and line of the
start and takes the end index of the end):
  `x op y`, `c ? a : b`  — from the span of the left-most child to that of the right-most child;
  `op x`                 — from the operator token to the operand;   `x op` — the converse;
  `o.f`                  — from the object to the field-name token;
  `f(args)`, `v[i]`      — starts where the callee / the indexed value starts;
and every such range is well oriented (start index ≤ index of the end part).

This part holds for ARBITRARY token lists; for `span_exact` / `span_nested` see below. -/
theorem span_composed {ops : List Operator} {times : List (String × Int)} {toks : List Token}
    {t : Expr} (h : parse ops times toks = .ok t) : t.All Expr.spanHere :=
  parseWith_all span_nodeOK h

/-- The conclusion is not trivial: a binary node whose span is that of its RIGHT child (what
`pos.Range` returned before the fix of D12) violates it. -/
example :
    ¬ (Expr.binary ⟨4, 5, 4, 0⟩ "+" ⟨2, 3, 2, 0⟩ fixInfixL (.ident ⟨0, 1, 0, 0⟩ "a")
        (.ident ⟨4, 5, 4, 0⟩ "b")).All Expr.spanHere ∧
    (Expr.binary ⟨0, 5, 0, 0⟩ "+" ⟨2, 3, 2, 0⟩ fixInfixL (.ident ⟨0, 1, 0, 0⟩ "a")
        (.ident ⟨4, 5, 4, 0⟩ "b")).All Expr.spanHere := by
  simp [Expr.All, Expr.spanHere, Expr.pos]

/-- At the root, for the common case of a binary tree: the root span starts with the left operand
and ends with the right operand. -/
theorem span_binary_root {ops : List Operator} {times : List (String × Int)} {toks : List Token}
    {p : Pos} {n : String} {np : Pos} {fx : Nat} {l r : Expr}
    (h : parse ops times toks = .ok (.binary p n np fx l r)) :
    p.idx = l.pos.idx ∧ p.col = l.pos.col ∧ p.line = l.pos.line ∧ p.idxEnd = r.pos.idxEnd ∧
    l.pos.idx ≤ r.pos.idx := by
  have := (span_composed h).here
  simp only [Expr.spanHere] at this
  obtain ⟨h1, h2⟩ := this
  subst h1
  exact ⟨rfl, rfl, rfl, rfl, h2⟩

/-! ## outcomes -/

/-- Malformed input is rejected through the error result: `parse` returns a tree, the syntax
error (every Go panic of the parser), or — an artefact of modelling `timelib.Strtotime` as a
finite table — `.externMiss`; with no operator of kind `<END-OF-FILE>` it never returns `.fuel`
(Go: does not terminate). -/
theorem outcomes {ops : List Operator} (hops : ∀ o ∈ ops, o.kind ≠ "<END-OF-FILE>")
    (times : List (String × Int)) (toks : List Token) :
    (∃ t, parse ops times toks = .ok t) ∨ parse ops times toks = .error .syntax ∨
      parse ops times toks = .error .externMiss := by
  have := parseWith_no_fuel hops times toks (fuel := parseFuel toks.length)
    (by unfold parseFuel; omega)
  unfold parse
  cases h : parseWith (parseFuel toks.length) ops times toks with
  | ok t => exact .inl ⟨t, rfl⟩
  | error e =>
    cases e
    · exact .inr (.inl rfl)
    · exact .inr (.inr rfl)
    · exact absurd h this

example : ∀ o ∈ [(⟨"==", 7, fixInfixN⟩ : Operator)], o.kind ≠ "<END-OF-FILE>" := by decide

/-! ## stage 1: yield and exact spans -/

/-- the hypothesis on the operator table as the parser environment sees it -/
theorem noEOF_of {ops : List Operator} (hops : ∀ o ∈ ops, o.kind ≠ "<END-OF-FILE>")
    (times : List (String × Int)) (toks : List Token) : PEnv.NoEOF (mkEnv ops times toks) :=
  newGrammar_noEOF hops

/-- The returned tree yields a prefix `[0, j)` of the tokens, and token `j` is the end of the
input: there is none, or it has the kind `<END-OF-FILE>`. -/
theorem yields_prefix {ops : List Operator} (hops : ∀ o ∈ ops, o.kind ≠ "<END-OF-FILE>")
    {times : List (String × Int)} {toks : List Token} {t : Expr}
    (h : parse ops times toks = .ok t) :
    ∃ j, Yields (mkEnv ops times toks) t 0 j ∧ ((mkEnv ops times toks).peek j).kind = tkEOF :=
  parseWith_yields (noEOF_of hops times toks) h

/-- **Yield.**  When no token has the kind `<END-OF-FILE>` (true of lexed input) the returned
tree yields ALL the tokens: it is a reading of `toks[0 .. n)` by the context-free grammar
`Yields`. -/
theorem yields {ops : List Operator} (hops : ∀ o ∈ ops, o.kind ≠ "<END-OF-FILE>")
    {times : List (String × Int)} {toks : List Token} (htk : ∀ t ∈ toks, t.kind ≠ "<END-OF-FILE>")
    {t : Expr} (h : parse ops times toks = .ok t) :
    Yields (mkEnv ops times toks) t 0 toks.length :=
  parseWith_yields_all (noEOF_of hops times toks) htk h

/-- Lexed input has ordered tokens: `TokensOrdered` is a part of `Yae.C09.lex_ordered`. -/
theorem lexed_ordered {ops : List Operator} {s : List Char} {ts : List Token}
    (h : lex ops s = .ok ts) : TokensOrdered ts :=
  ⟨fun t ht => ⟨((Yae.C09.lex_ordered h).1 t ht).1, ((Yae.C09.lex_ordered h).1 t ht).2.1⟩,
    (Yae.C09.lex_ordered h).2⟩

theorem mkEnv_peek {ops : List Operator} {times : List (String × Int)} {toks : List Token} {a : Nat}
    (ha : a < toks.length) : (mkEnv ops times toks).peek a = toks[a] := by
  rw [PEnv.peek_lt _ (by simpa [mkEnv] using ha)]; simp [mkEnv]

/-- **Exact spans.**  With token positions in source order, EVERY node `n` of the returned tree
was read from a non-empty token range `[a, b)` (`Yields … n a b`) and records exactly the span of
that range: it starts where token `a` starts (index, column, line) and ends where token `b-1`
ends.  (Member, call and subscript nodes start at their object / callee.) -/
theorem span_exact {ops : List Operator} (hops : ∀ o ∈ ops, o.kind ≠ "<END-OF-FILE>")
    {times : List (String × Int)} {toks : List Token} (hord : TokensOrdered toks)
    {t : Expr} (h : parse ops times toks = .ok t) :
    t.All (fun n => ∃ (a b : Nat) (_ : a < b) (_ : b ≤ toks.length),
      Yields (mkEnv ops times toks) n a b ∧
      n.pos.idx = toks[a].pos.idx ∧ n.pos.col = toks[a].pos.col ∧ n.pos.line = toks[a].pos.line ∧
      n.pos.idxEnd = toks[b - 1].pos.idxEnd) := by
  obtain ⟨j, hy, _⟩ := yields_prefix hops h
  refine Expr.All.imp ?_ (hy.all_span (hord.env (ops := ops) (times := times)))
  rintro n ⟨a, b, _, _, hn, hab, hb, hp⟩
  have hb' : b ≤ toks.length := by simpa [mkEnv] using hb
  refine ⟨a, b, hab, hb', hn, ?_⟩
  rw [mkEnv_peek (by omega), mkEnv_peek (by omega)] at hp
  rw [hp]
  exact ⟨rfl, rfl, rfl, rfl⟩

/-- **Span nesting.**  With token positions in source order, at EVERY node of the returned tree:
the node's span is not empty; each child's span (and the recorded position of the operator /
field-name token) is not empty and lies within it; these parts are pairwise disjoint and in
source order (`Expr.spanNested`, `Expr.parts`). -/
theorem span_nested {ops : List Operator} (hops : ∀ o ∈ ops, o.kind ≠ "<END-OF-FILE>")
    {times : List (String × Int)} {toks : List Token} (hord : TokensOrdered toks)
    {t : Expr} (h : parse ops times toks = .ok t) : t.All Expr.spanNested := by
  obtain ⟨j, hy, _⟩ := yields_prefix hops h
  exact hy.nested (hord.env (ops := ops) (times := times))

/-- The conclusion is not trivial: overlapping children violate it. -/
example :
    ¬ (Expr.binary ⟨0, 5, 0, 0⟩ "+" ⟨2, 3, 2, 0⟩ fixInfixL (.ident ⟨0, 3, 0, 0⟩ "a")
        (.ident ⟨4, 5, 4, 0⟩ "b")).spanNested ∧
    (Expr.binary ⟨0, 5, 0, 0⟩ "+" ⟨2, 3, 2, 0⟩ fixInfixL (.ident ⟨0, 1, 0, 0⟩ "a")
        (.ident ⟨4, 5, 4, 0⟩ "b")).spanNested := by
  simp [Expr.spanNested, Expr.parts, Expr.pos]

/-! ## stage 2: the declarations are respected -/

/-- **The returned tree respects the declarations** (`Respects`: (R1)–(R4) of the header), for
every operator table; operator tokens are assumed to carry their kind as lexeme. -/
theorem respects {ops : List Operator} (hops : ∀ o ∈ ops, o.kind ≠ "<END-OF-FILE>")
    {times : List (String × Int)} {toks : List Token} (hL : OpLexemes ops toks)
    {t : Expr} (h : parse ops times toks = .ok t) : Respects (newGrammar ops) t :=
  parseWith_respects (noEOF_of hops times toks) hL h

/-- `Respects` separates the two readings of `a + b * c` (built-in powers: `+` 7, `*` 8): the
tree `a + (b * c)` respects them, `(a + b) * c` WITHOUT a group node does not. -/
example :
    Respects (newGrammar builtinOps)
      (.binary Pos.zero "+" Pos.zero fixInfixL (.ident Pos.zero "a")
        (.binary Pos.zero "*" Pos.zero fixInfixL (.ident Pos.zero "b") (.ident Pos.zero "c"))) ∧
    ¬ Respects (newGrammar builtinOps)
      (.binary Pos.zero "*" Pos.zero fixInfixL
        (.binary Pos.zero "+" Pos.zero fixInfixL (.ident Pos.zero "a") (.ident Pos.zero "b"))
        (.ident Pos.zero "c")) := by
  simp only [Respects, Expr.All, Expr.respHere, Expr.leftAbove, Expr.rightOK, Expr.noChainHere,
    binRbp_L]
  decide

/-- … and the two readings of the right-associative `a ^ b ^ c`. -/
example :
    Respects (newGrammar builtinOps)
      (.binary Pos.zero "^" Pos.zero fixInfixR (.ident Pos.zero "a")
        (.binary Pos.zero "^" Pos.zero fixInfixR (.ident Pos.zero "b") (.ident Pos.zero "c"))) ∧
    ¬ Respects (newGrammar builtinOps)
      (.binary Pos.zero "^" Pos.zero fixInfixR
        (.binary Pos.zero "^" Pos.zero fixInfixR (.ident Pos.zero "a") (.ident Pos.zero "b"))
        (.ident Pos.zero "c")) := by
  simp only [Respects, Expr.All, Expr.respHere, Expr.leftAbove, Expr.rightOK, Expr.noChainHere,
    binRbp_R]
  decide

/-! ## stage 3: completeness and uniqueness -/

/-- The built-in operator table is well formed … -/
theorem wf_builtin : WFOps builtinOps := by unfold WFOps; decide

/-- … hence so is its grammar (`WFOps.grammar` holds for every well-formed table). -/
example : WFGrammar (newGrammar builtinOps) := wf_builtin.grammar

/-- **Completeness.**  For a well-formed operator table: a tree that yields all the tokens and
respects the declarations IS the result of `parse`. -/
theorem complete {ops : List Operator} (hW : WFOps ops) {times : List (String × Int)}
    {toks : List Token} (hL : OpLexemes ops toks) {t : Expr}
    (hy : Yields (mkEnv ops times toks) t 0 toks.length) (hR : Respects (newGrammar ops) t) :
    parse ops times toks = .ok t :=
  parse_complete hW.grammar hL hy hR

/-- **Uniqueness.**  Two trees that yield the same tokens and respect the declarations are equal:
the declarations dictate the tree. -/
theorem unique {ops : List Operator} (hW : WFOps ops) {times : List (String × Int)}
    {toks : List Token} (hL : OpLexemes ops toks) {t t' : Expr}
    (hy : Yields (mkEnv ops times toks) t 0 toks.length) (hR : Respects (newGrammar ops) t)
    (hy' : Yields (mkEnv ops times toks) t' 0 toks.length) (hR' : Respects (newGrammar ops) t') :
    t = t' :=
  respects_unique hW.grammar hL hy hR hy' hR'

/-- **The parser returns exactly the tree dictated by the declarations**: for a well-formed
operator table, `parse` returns `t` if and only if `t` yields the token list and respects the
declarations.  (Hence `parse` fails exactly when no such tree exists.) -/
theorem exactly {ops : List Operator} (hW : WFOps ops) {times : List (String × Int)}
    {toks : List Token} (hL : OpLexemes ops toks) (htk : ∀ t ∈ toks, t.kind ≠ "<END-OF-FILE>")
    {t : Expr} :
    parse ops times toks = .ok t ↔
      (Yields (mkEnv ops times toks) t 0 toks.length ∧ Respects (newGrammar ops) t) :=
  parse_iff hW.grammar hL htk

/-- **Required parentheses are respected.**  A tree with a `Group` node that yields the tokens —
so the `(` and `)` of that node are tokens of the text — and respects the declarations is
returned as it is, `Group` node included (in `Respects` a `Group` shields its body: (R3) only). -/
theorem required_parens {ops : List Operator} (hW : WFOps ops) {times : List (String × Int)}
    {toks : List Token} (hL : OpLexemes ops toks) {t : Expr}
    (hy : Yields (mkEnv ops times toks) t 0 toks.length) (hR : Respects (newGrammar ops) t) :
    parse ops times toks = .ok t :=
  complete hW hL hy hR

/-- **Redundant parentheses never change the tree.**  Let `parse` return `t` on `toks` (token
positions in source order), let `Group p e` be a node of `t` (`hsub`) read from the tokens
`a … b` (`hG`: `a` is its `(`, `b` its `)`), and suppose `t` without that node still respects the
declarations (`hR`; `UG p e t t'` says that `t'` is `t` with one occurrence of `Group p e` replaced
by its body `e`, the spans recorded at the ancestors of that node being free: a span that began
at the `(` or ended at the `)` now begins / ends with the body).  Then `parse` on the token list
without the two parentheses (`dropTwo toks a b`) returns `t` without that node. -/
theorem redundant_parens {ops : List Operator} (hW : WFOps ops) {times : List (String × Int)}
    {toks : List Token} (hL : OpLexemes ops toks) (hord : TokensOrdered toks)
    (htk : ∀ t ∈ toks, t.kind ≠ "<END-OF-FILE>") {t : Expr} (h : parse ops times toks = .ok t)
    {p : Pos} {e : Expr} {a b : Nat}
    (hG : Yields (mkEnv ops times toks) (.group p e) a (b + 1))
    (hsub : ∃ t0, UG p e t t0)
    (hR : ∀ t', UG p e t t' → Respects (newGrammar ops) t') :
    ∃ t', UG p e t t' ∧ parse ops times (dropTwo toks a b) = .ok t' :=
  parse_ungroup hW.grammar hL hord htk h hG hsub hR

/-! ## from the source text: lexer and parser together -/

/-- Lexed input satisfies the hypothesis `OpLexemes`: a token produced by any rule but the ten
literal patterns carries its kind as lexeme; so it suffices that no operator is NAMED like one of
the literal kinds `<num>`, `<str>`, `<time>`, `<sym>`. -/
theorem lexed_opLexemes {ops : List Operator} (hops : ∀ o ∈ ops, o.kind ∉ literalKinds)
    {s : List Char} {ts : List Token} (h : lex ops s = .ok ts) : OpLexemes ops ts :=
  Yae.lexed_opLexemes hops h

/-- **From the source text.**  For a well-formed operator table none of whose operators is named
like a literal kind: on the tokens `lex` produces for ANY source text, `parse` returns `t` if and
only if `t` yields exactly those tokens and respects the declarations — no hypothesis on the
tokens is left (`OpLexemes`, the absence of an end-of-file token and `TokensOrdered` are theorems
about `lex`). -/
theorem exactly_lexed {ops : List Operator} (hW : WFOps ops)
    (hlit : ∀ o ∈ ops, o.kind ∉ literalKinds) {times : List (String × Int)} {s : List Char}
    {ts : List Token} (hl : lex ops s = .ok ts) {t : Expr} :
    parse ops times ts = .ok t ↔
      (Yields (mkEnv ops times ts) t 0 ts.length ∧ Respects (newGrammar ops) t) :=
  exactly hW (Yae.lexed_opLexemes hlit hl)
    (lexed_no_eof (fun o ho e => hW.1 o ho (by rw [e]; decide)) hl)

/-- … and every node of the tree parsed from lexed input records exactly its span and nests its
children (`span_exact`, `span_nested` with their hypothesis discharged by the lexer). -/
theorem span_nested_lexed {ops : List Operator} (hops : ∀ o ∈ ops, o.kind ≠ "<END-OF-FILE>")
    {times : List (String × Int)} {s : List Char} {ts : List Token} (hl : lex ops s = .ok ts)
    {t : Expr} (h : parse ops times ts = .ok t) : t.All Expr.spanNested :=
  span_nested hops (lexed_ordered hl) h

example : WFOps builtinOps ∧ ∀ o ∈ builtinOps, o.kind ∉ literalKinds := ⟨wf_builtin, by decide⟩

/-! ## non-vacuity: the parser evaluated by the kernel -/

def isSyntaxErr : Except ParseErr Expr → Bool
  | .error .syntax => true
  | _ => false

theorem eq_of_isSyntaxErr {r : Except ParseErr Expr} (h : isSyntaxErr r = true) :
    r = .error .syntax := by
  cases r with
  | error e => cases e <;> simp_all [isSyntaxErr]
  | ok _ => simp [isSyntaxErr] at h

/-- a token at `[a, b)` on line 0 -/
def tk (k l : String) (a b : Int) : Token := ⟨k, l, ⟨a, b, a, 0⟩⟩
def sym (n : String) (a : Int) : Token := tk "<sym>" n a (a + 1)
def op (k : String) (a : Int) : Token := tk k k a (a + k.length)

mutual
/-- the shape of a tree, positions dropped -/
def sx : Expr → List String
  | .ident _ n => [n]
  | .bool _ b => [if b then "true" else "false"]
  | .num _ _ => ["<num>"]
  | .str _ v => [v]
  | .time _ _ => ["<time>"]
  | .group _ e => ["(", "group"] ++ sx e ++ [")"]
  | .unary _ n _ e true => ["(", "pre", n] ++ sx e ++ [")"]
  | .unary _ n _ e false => ["(", "post", n] ++ sx e ++ [")"]
  | .binary _ n _ _ l r => ["(", n] ++ sx l ++ sx r ++ [")"]
  | .ternary _ n _ l m r => ["(", n] ++ sx l ++ sx m ++ sx r ++ [")"]
  | .call _ _ c as _ _ _ => ["(", "call"] ++ sx c ++ sxList as ++ [")"]
  | .member _ _ o f _ _ _ => ["(", "."] ++ sx o ++ [f, ")"]
  | .subscript _ _ v i _ => ["(", "[]"] ++ sx v ++ sx i ++ [")"]
  | .list _ es _ => ["(", "list"] ++ sxList es ++ [")"]
  | .map _ ps _ => ["(", "map"] ++ sxPairs ps ++ [")"]
  | .obj _ fs _ => ["(", "obj"] ++ sxFields fs ++ [")"]
def sxList : ExprList → List String
  | .nil => []
  | .cons e es => sx e ++ sxList es
def sxPairs : PairList → List String
  | .nil => []
  | .cons k v ps => sx k ++ sx v ++ sxPairs ps
def sxFields : FieldEList → List String
  | .nil => []
  | .cons n e fs => n :: sx e ++ sxFields fs
end

/-- the shape of the parse with the built-in operators -/
def shape (toks : List Token) : Option (List String) :=
  (parse builtinOps [] toks).toOption.map sx

/-- `a + b * c` -/
def toks1 : List Token := [sym "a" 0, op "+" 2, sym "b" 4, op "*" 6, sym "c" 8]
example : shape toks1 = some ["(", "+", "a", "(", "*", "b", "c", ")", ")"] := by decide +kernel

/-- `a ^ b ^ c` (right-associative) and `a - b - c` (left-associative) -/
def toks2 : List Token := [sym "a" 0, op "^" 2, sym "b" 4, op "^" 6, sym "c" 8]
example : shape toks2 = some ["(", "^", "a", "(", "^", "b", "c", ")", ")"] := by decide +kernel
example : shape [sym "a" 0, op "-" 2, sym "b" 4, op "-" 6, sym "c" 8] =
    some ["(", "-", "(", "-", "a", "b", ")", "c", ")"] := by decide +kernel

/-- `(a == b) == c` is accepted with its group node, `a == b == c` is a syntax error -/
def toks3 : List Token :=
  [op "(" 0, sym "a" 1, op "==" 3, sym "b" 6, op ")" 7, op "==" 9, sym "c" 12]
example : shape toks3 =
    some ["(", "==", "(", "group", "(", "==", "a", "b", ")", ")", "c", ")"] := by decide +kernel
example : parse builtinOps [] [sym "a" 1, op "==" 3, sym "b" 6, op "==" 9, sym "c" 12] =
    .error .syntax := eq_of_isSyntaxErr (by decide +kernel)

/-- `-a.f(x)[1] ? b : c`: member, method call and subscript bind tighter than the prefix `-`,
which binds tighter than `?:` -/
def toks4 : List Token :=
  [op "-" 0, sym "a" 1, op "." 2, sym "f" 3, op "(" 4, sym "x" 5, op ")" 6, op "[" 7,
   tk "<num>" "1" 8 9, op "]" 9, op "?" 11, sym "b" 13, op ":" 15, sym "c" 17]
example : shape toks4 =
    some ["(", "?", "(", "pre", "-", "(", "[]", "(", "call", "(", ".", "a", "f", ")", "x", ")",
      "<num>", ")", ")", "b", "c", ")"] := by decide +kernel

/-- the hypotheses of the theorems hold of these token lists -/
example : TokensOrdered toks1 ∧ TokensOrdered toks3 ∧ TokensOrdered toks4 := by decide +kernel
example : OpLexemes builtinOps toks1 ∧ OpLexemes builtinOps toks3 ∧ OpLexemes builtinOps toks4 := by
  decide +kernel

/-- the root span of `-a.f(x)[1] ? b : c` runs from the `-` to the `c` -/
example : (parse builtinOps [] toks4).toOption.map Expr.pos = some ⟨0, 18, 0, 0⟩ := by
  decide +kernel

/-- **Redundant parentheses, an instance**: `(a * b) + c` and `a * b + c` give the same tree up
to the group node (and the spans). -/
theorem redundant_example :
    shape [op "(" 0, sym "a" 1, op "*" 3, sym "b" 5, op ")" 6, op "+" 8, sym "c" 10] =
      some ["(", "+", "(", "group", "(", "*", "a", "b", ")", ")", "c", ")"] ∧
    shape [sym "a" 1, op "*" 3, sym "b" 5, op "+" 8, sym "c" 10] =
      some ["(", "+", "(", "*", "a", "b", ")", "c", ")"] := by decide +kernel

/-- **Required parentheses, an instance**: `(a + b) * c` keeps its group node and differs from
`a + b * c`. -/
theorem required_example :
    shape [op "(" 0, sym "a" 1, op "+" 3, sym "b" 5, op ")" 6, op "*" 8, sym "c" 10] =
      some ["(", "*", "(", "group", "(", "+", "a", "b", ")", ")", "c", ")"] ∧
    shape [sym "a" 1, op "+" 3, sym "b" 5, op "*" 8, sym "c" 10] =
      some ["(", "+", "a", "(", "*", "b", "c", ")", ")"] := by decide +kernel

/-- `(o.f)(x)` and `o.f(x)`: the call of a group versus the method-call form (built by the `.`);
the trees agree up to the group node, as `redundant_parens` says -/
example :
    shape [op "(" 0, sym "o" 1, op "." 2, sym "f" 3, op ")" 4, op "(" 5, sym "x" 6, op ")" 7] =
      some ["(", "call", "(", "group", "(", ".", "o", "f", ")", ")", "x", ")"] ∧
    shape [sym "o" 1, op "." 2, sym "f" 3, op "(" 5, sym "x" 6, op ")" 7] =
      some ["(", "call", "(", ".", "o", "f", ")", "x", ")"] := by decide +kernel

/-! ## the clauses of well-formedness are needed -/

/-- With `)` registered as an infix operator, completeness fails: the tree of `(a)` yields the
three tokens and respects the declarations, but `parse` rejects the input (after `a` it takes the
`)` for the operator). -/
theorem closer_needed :
    ∃ (ops : List Operator) (toks : List Token) (t : Expr),
      Yields (mkEnv ops [] toks) t 0 toks.length ∧ Respects (newGrammar ops) t ∧
      OpLexemes ops toks ∧ parse ops [] toks = .error .syntax := by
  refine ⟨[⟨")", 7, fixInfixL⟩], [op "(" 0, sym "a" 1, op ")" 2],
    .group ⟨0, 3, 0, 0⟩ (.ident ⟨1, 2, 1, 0⟩ "a"), ?_, ?_, by decide +kernel,
    eq_of_isSyntaxErr (by decide +kernel)⟩
  · exact Yields.group (bp := bpNone) (i := 0) (j := 2) ⟨by decide +kernel, by decide +kernel⟩
      (Yields.ident (bp := bpNone) (i := 1) ⟨by decide +kernel, by decide +kernel⟩)
      ⟨by decide +kernel, by decide +kernel⟩ (by decide +kernel)
  · simp [Respects, Expr.All, Expr.respHere, Expr.leftAbove, Expr.noChainHere]

/-- With a prefix operator of negative power (`~` at `-1`), completeness fails: the tree of `~a`
yields the tokens and respects the declarations, but `parse` rejects the input (`expr(-1)`
demands an infix entry for the end of the input). -/
theorem nonneg_prefix_needed :
    ∃ (ops : List Operator) (toks : List Token) (t : Expr),
      Yields (mkEnv ops [] toks) t 0 toks.length ∧ Respects (newGrammar ops) t ∧
      OpLexemes ops toks ∧ parse ops [] toks = .error .syntax := by
  refine ⟨[⟨"~", ⟨true, 0x3f800000⟩, fixPrefix⟩], [op "~" 0, sym "a" 1],
    .unary ⟨0, 2, 0, 0⟩ "~" ⟨0, 1, 0, 0⟩ (.ident ⟨1, 2, 1, 0⟩ "a") true, ?_, ?_,
    by decide +kernel, eq_of_isSyntaxErr (by decide +kernel)⟩
  · exact Yields.pre (bp := ⟨true, 0x3f800000⟩) (i := 0) (j := 2)
      ⟨by decide +kernel, by decide +kernel⟩
      (Yields.ident (bp := bpNone) (i := 1) ⟨by decide +kernel, by decide +kernel⟩)
      (by decide +kernel)
  · simp [Respects, Expr.All, Expr.respHere, Expr.leftAbove, Expr.noChainHere]

/-- neither table is well formed -/
example : ¬ WFOps [⟨")", 7, fixInfixL⟩] ∧ ¬ WFOps [⟨"~", ⟨true, 0x3f800000⟩, fixPrefix⟩] := by
  unfold WFOps; decide


end Yae.C08

#print axioms Yae.C08.node_invariant
#print axioms Yae.C08.nonassoc
#print axioms Yae.C08.infixNCheck_accepts
#print axioms Yae.C08.span_composed
#print axioms Yae.C08.span_binary_root
#print axioms Yae.C08.outcomes
#print axioms Yae.C08.yields_prefix
#print axioms Yae.C08.yields
#print axioms Yae.C08.lexed_ordered
#print axioms Yae.C08.span_exact
#print axioms Yae.C08.span_nested
#print axioms Yae.C08.respects
#print axioms Yae.C08.wf_builtin
#print axioms Yae.WFOps.grammar
#print axioms Yae.C08.complete
#print axioms Yae.C08.unique
#print axioms Yae.C08.exactly
#print axioms Yae.C08.required_parens
#print axioms Yae.C08.redundant_parens
#print axioms Yae.C08.redundant_example
#print axioms Yae.C08.required_example
#print axioms Yae.C08.closer_needed
#print axioms Yae.C08.nonneg_prefix_needed
#print axioms Yae.C08.lexed_opLexemes
#print axioms Yae.C08.exactly_lexed
#print axioms Yae.C08.span_nested_lexed
