/-
  C09. "Lexing any input either fails with a syntax error or yields tokens that appear in source
  order, do not overlap, are separated only by white space, and whose recorded index range, line
  and column reproduce exactly the token's text. Among registered symbolic operators the longest
  one that matches is chosen, identifier-like operators and the literals true / false are
  recognised only as whole words, the built-in '.' and '?' are never split out of a longer
  operator, and each numeric, string and time literal form is read as a single token."

  Model: `Yae.Model.Lexer` (`lex ops input`, input = the runes of the source).
  Proofs: `Yae.Proofs.Lex` (loop invariant `Lexed`), `Yae.Proofs.LexRules` (lexicon).
  This file only states the property-level theorems.

  * "either fails with a syntax error or yields tokens": `lex` is a total function into
    `Except LexErr _`; `lex_no_fuel` excludes the model-only outcome `.fuel` (Go: endless loop)
    for every operator table without an operator of empty kind.
  * order / no overlap / white space only / positions: `lex_partition` (the gaps),
    `lex_token_at` (per token: prefix, recorded `Pos`), `lex_ordered`, `lex_slice`.
  * whole words: `lex_words`.   built-in `.`/`?`: `lex_prim` (needs: the user did not register
    `.` / `?` himself; counterexample `prim_needs_hyp`).
  * longest symbolic operator: `lex_longest`.  The unrestricted sentence is FALSE for the
    pinned lexicon (finding D25): the eight punctuation rules `: , ( ) [ ] { }` and then the
    built-in `.` `?` are tried BEFORE the user operators, so a registered `:=` is never lexed
    (`d25_colon_operator`).  `lex_longest` says exactly that: either one of those ten kinds
    won, or the winner is a registered operator at least as long as every registered symbolic
    operator that matches at that place.  `sortOps_perm` / `sortOps_sorted` / `sortOps_stable`
    specify `oper.Sort`.
  * literal forms: a literal token is whatever the ten hand-written recognisers
    (`Pat.run`, tied to Go's `regexp` by differential testing only) match; the model-level
    content is `lex_token_at` (the token is the WHOLE match of the first matching rule) plus
    kernel-checked instances (`literal_examples`).
-/
import Yae.Proofs.LexRules
namespace Yae.C09
open Yae

/-! ## layout -/

/-- The tokens partition the input up to white space: there are runs of white space
`gaps₀ … gapsₙ₋₁`, `last` with
`s = gaps₀ ++ lexeme₀ ++ gaps₁ ++ lexeme₁ ++ … ++ gapsₙ₋₁ ++ lexemeₙ₋₁ ++ last`. -/
theorem lex_partition {ops : List Operator} {s : List Char} {ts : List Token}
    (h : lex ops s = .ok ts) :
    ∃ (gaps : List (List Char)) (last : List Char), gaps.length = ts.length ∧
      (∀ w ∈ gaps, ∀ c ∈ w, isSpace c = true) ∧ (∀ c ∈ last, isSpace c = true) ∧
      s = (List.zipWith (fun w (t : Token) => w ++ t.lexeme.toList) gaps ts).flatten ++ last :=
  (lex_lexed h).partition

/-- Per token: the input is `pre ++ lexeme ++ post`; the lexeme is not empty and does not start
with white space; the recorded position is: `idx` = number of runes before the token, `idxEnd` =
`idx` + length of the lexeme, `col` = number of runes since the last newline before the token
(`colOf pre`), `line` = number of newlines before it; and the token is exactly what the first
matching rule of the lexicon matched on the remaining input `lexeme ++ post` (its kind, and its
`n` runes). -/
theorem lex_token_at {ops : List Operator} {s : List Char} {ts : List Token}
    (h : lex ops s = .ok ts) {t : Token} (ht : t ∈ ts) :
    ∃ pre post n, s = pre ++ t.lexeme.toList ++ post ∧ t.lexeme.toList ≠ [] ∧
      (∀ c r, t.lexeme.toList = c :: r → isSpace c = false) ∧
      t.pos = ⟨pre.length, pre.length + t.lexeme.toList.length, colOf pre, pre.count '\n'⟩ ∧
      firstMatch (newLexicon ops) (t.lexeme.toList ++ post) = some (t.kind, n) ∧
      t.lexeme.toList = (t.lexeme.toList ++ post).take n := by
  obtain ⟨pre, post, n, h1, h2, h3, h4, h5, h6⟩ := (lex_lexed h).tokAt ht
  exact ⟨pre, post, n, h1, h2, h3, by rw [h4, tokPos_zero], h5, h6⟩

/-- The cursor is `Pos.move` folded over the consumed prefix (the form the proof uses). -/
theorem lex_token_cursor {ops : List Operator} {s : List Char} {ts : List Token}
    (h : lex ops s = .ok ts) {t : Token} (ht : t ∈ ts) :
    ∃ pre post, s = pre ++ t.lexeme.toList ++ post ∧
      t.pos = { pre.foldl Pos.move Pos.zero with
                idxEnd := ((pre ++ t.lexeme.toList).foldl Pos.move Pos.zero).idx } := by
  obtain ⟨pre, post, n, h1, _, _, h4, _, _⟩ := (lex_lexed h).tokAt ht
  exact ⟨pre, post, h1, by rw [h4]; simp [tokPos, Pos.moves, List.foldl_append]⟩

/-- Source order, no overlap, inside the input, non-empty, `idxEnd - idx` = length of the text. -/
theorem lex_ordered {ops : List Operator} {s : List Char} {ts : List Token}
    (h : lex ops s = .ok ts) :
    (∀ t ∈ ts, 0 ≤ t.pos.idx ∧ t.pos.idx < t.pos.idxEnd ∧ t.pos.idxEnd ≤ s.length ∧
      t.pos.idxEnd = t.pos.idx + t.lexeme.toList.length) ∧
    ts.Pairwise (fun a b => a.pos.idxEnd ≤ b.pos.idx) := by
  have := (lex_lexed h).bounds
  simpa [Pos.zero] using this

/-- The recorded index range reproduces exactly the token's text. -/
theorem lex_slice {ops : List Operator} {s : List Char} {ts : List Token}
    (h : lex ops s = .ok ts) {t : Token} (ht : t ∈ ts) :
    (s.drop t.pos.idx.toNat).take (t.pos.idxEnd - t.pos.idx).toNat = t.lexeme.toList := by
  obtain ⟨pre, post, n, h1, _, _, h4, _, _⟩ := lex_token_at h ht
  rw [h4, h1]
  simp only [List.append_assoc, Int.toNat_natCast, List.drop_left]
  have : ((pre.length : Int) + (t.lexeme.toList.length : Int) - (pre.length : Int)).toNat
      = t.lexeme.toList.length := by omega
  rw [this]; simp

/-- non-vacuity of the layout theorems (and a look at the recorded positions):
`"a\n  +b"` gives `a` at line 0 col 0, `+` at line 1 col 2, `b` at line 1 col 3. -/
example : lex [⟨"+", 7, fixInfixL⟩] "a\n  +b".toList = .ok
    [⟨"<sym>", "a", ⟨0, 1, 0, 0⟩⟩, ⟨"+", "+", ⟨4, 5, 2, 1⟩⟩, ⟨"<sym>", "b", ⟨5, 6, 3, 1⟩⟩] := by
  decide +kernel

/-! ## termination of the loop -/

/-- With no operator of empty kind the lexer never runs out of fuel: the result is a token list
or the syntax error. -/
theorem lex_no_fuel {ops : List Operator} (hops : ∀ o ∈ ops, o.kind ≠ "") (s : List Char) :
    lex ops s ≠ .error .fuel :=
  lexLoop_no_fuel (newLexicon_progress hops) _ _ _ (Nat.lt_succ_self _)

example : ∀ o ∈ [(⟨"+", 7, fixInfixL⟩ : Operator)], o.kind ≠ "" := by simp

/-- The hypothesis is needed: an operator of empty kind matches the empty string everywhere (Go
loops for ever; the model reports `.fuel`). -/
example : lex [⟨"", 7, fixInfixL⟩] "a".toList = .error .fuel := by decide +kernel

/-! ## whole words -/

/-- A token whose kind is identifier-like (an identifier-like operator, `true`, `false`) is that
word exactly, and the character after it, if any, cannot continue an identifier. -/
theorem lex_words {ops : List Operator} {s : List Char} {ts : List Token}
    (h : lex ops s = .ok ts) {t : Token} (ht : t ∈ ts) (hk : isIdentOp t.kind.toList = true) :
    t.lexeme = t.kind ∧
    ∃ pre post, s = pre ++ t.lexeme.toList ++ post ∧ t.pos.idx = pre.length ∧
      ∀ c r, post = c :: r → isIdentCont c = false := by
  obtain ⟨pre, post, n, h1, _, _, h4, h5, h6⟩ := lex_token_at h ht
  obtain ⟨w1, w2, w3⟩ := firstMatch_word h5 hk
  have hlex : t.lexeme.toList = t.kind.toList := by
    rw [h6, w1, w2]; simp
  have hdrop : (t.lexeme.toList ++ post).drop t.kind.toList.length = post := by
    rw [← hlex]; simp
  refine ⟨String.toList_inj.mp hlex, pre, post, h1, by rw [h4], ?_⟩
  intro c r hc
  exact w3 c r (by rw [hdrop, hc])

/-- `true` and `false` are identifier-like kinds, so `lex_words` applies to them. -/
example : isIdentOp "true".toList = true ∧ isIdentOp "false".toList = true := by decide

/-- `truex` is one identifier, `true x` is the literal followed by an identifier. -/
example : lex [] "truex".toList = .ok [⟨"<sym>", "truex", ⟨0, 5, 0, 0⟩⟩] ∧
    lex [] "true x".toList
      = .ok [⟨"true", "true", ⟨0, 4, 0, 0⟩⟩, ⟨"<sym>", "x", ⟨5, 6, 5, 0⟩⟩] := by decide +kernel

/-! ## the built-in `.` and `?` -/

/-- A `.` (resp. `?`) token is never followed by an operator character, i.e. it is never split
out of a longer run of operator characters, provided the user has not registered an operator
of that very kind. -/
theorem lex_prim {ops : List Operator} {s : List Char} {ts : List Token}
    (h : lex ops s = .ok ts) {t : Token} (ht : t ∈ ts) (hk : t.kind = "." ∨ t.kind = "?")
    (hops : ∀ o ∈ ops, o.kind ≠ t.kind) :
    t.lexeme = t.kind ∧
    ∃ pre post, s = pre ++ t.lexeme.toList ++ post ∧ t.pos.idx = pre.length ∧
      operHasPrefix post = false := by
  obtain ⟨pre, post, n, h1, _, _, h4, h5, h6⟩ := lex_token_at h ht
  obtain ⟨w1, w2, w3⟩ := firstMatch_prim h5 hk hops
  have hl : t.kind.toList.length = 1 := by rcases hk with hk | hk <;> rw [hk] <;> decide
  have hlex : t.lexeme.toList = t.kind.toList := by
    rw [h6, w1, w2]; simp [hl]
  have hdrop : (t.lexeme.toList ++ post).drop 1 = post := by
    rw [hlex, ← hl]; simp
  exact ⟨String.toList_inj.mp hlex, pre, post, h1, by rw [h4], by rw [← hdrop]; exact w3⟩

example : ∀ o ∈ [(⟨".^.", 7, fixInfixL⟩ : Operator)], o.kind ≠ "." := by decide

/-- `a.^.b` with `.^.` registered is three tokens; `a.b` has the built-in `.`. -/
example : (lex [⟨".^.", 7, fixInfixL⟩] "a.^.b".toList).map (·.map (·.kind)) = .ok ["<sym>", ".^.", "<sym>"] ∧
    (lex [⟨".^.", 7, fixInfixL⟩] "a.b".toList).map (·.map (·.kind)) = .ok ["<sym>", ".", "<sym>"] := by
  decide +kernel

/-- The hypothesis of `lex_prim` is needed: if the user registers `.` himself (and `+`), then in
`a.+b` the built-in rule refuses `.` (an operator character follows) but the user's own `.` rule
takes it: a `.` token directly followed by `+`. -/
theorem prim_needs_hyp :
    (lex [⟨".", 7, fixInfixL⟩, ⟨"+", 7, fixInfixL⟩] "a.+b".toList).map (·.map (·.kind))
      = .ok ["<sym>", ".", "+", "<sym>"] := by decide +kernel

/-! ## `oper.Sort` and the longest symbolic operator -/

/-- `oper.Sort` permutes the table, … -/
theorem sortOps_perm (ops : List Operator) : (sortOps ops).Perm ops := Yae.sortOps_perm ops

/-- … orders it by descending byte length of the kind, … -/
theorem sortOps_sorted (ops : List Operator) :
    (sortOps ops).Pairwise (fun a b => a.kind.utf8ByteSize ≥ b.kind.utf8ByteSize) :=
  Yae.sortOps_sorted ops

/-- … and is stable: operators of equal byte length keep their registration order. -/
theorem sortOps_stable (ops : List Operator) (n : Nat) :
    (sortOps ops).filter (fun o => o.kind.utf8ByteSize == n)
      = ops.filter (fun o => o.kind.utf8ByteSize == n) :=
  Yae.sortOps_stable ops n

/-- Longest match.  Let `o` be any registered SYMBOLIC operator (not identifier-like) whose kind
is a prefix of the input at the place where token `t` starts.  Then `t` is one of the eight
punctuation tokens, or the built-in `.` / `?`, or `t` is a registered operator whose kind is at
least as long (in bytes, the sort key) as `o`'s.

Full statement ("the longest registered symbolic operator that matches is chosen") is FALSE
because of the first three alternatives: see `d25_colon_operator`. -/
theorem lex_longest {ops : List Operator} {s : List Char} {ts : List Token}
    (h : lex ops s = .ok ts) {t : Token} (ht : t ∈ ts) :
    ∃ pre post, s = pre ++ t.lexeme.toList ++ post ∧ t.pos.idx = pre.length ∧
      ∀ o ∈ ops, isIdentOp o.kind.toList = false →
        o.kind.toList.isPrefixOf (t.lexeme.toList ++ post) = true →
        t.kind ∈ [":", ",", "(", ")", "[", "]", "{", "}"] ∨ t.kind = "." ∨ t.kind = "?" ∨
        ∃ o' ∈ ops, o'.kind = t.kind ∧ o.kind.utf8ByteSize ≤ o'.kind.utf8ByteSize := by
  obtain ⟨pre, post, n, h1, _, _, h4, h5, _⟩ := lex_token_at h ht
  exact ⟨pre, post, h1, by rw [h4], fun o ho hs hp => firstMatch_longest h5 ho hs hp⟩

/-- non-vacuity / illustration: with `<`, `<=`, `<=>` registered in any order, `a<=>b` has the
single operator token `<=>`. -/
example : (lex [⟨"<", 7, fixInfixL⟩, ⟨"<=>", 7, fixInfixL⟩, ⟨"<=", 7, fixInfixL⟩]
    "a<=>b".toList).map (·.map (·.kind)) = .ok ["<sym>", "<=>", "<sym>"] := by decide +kernel

/-- **D25**: a registered operator that starts with `:` (or any other of the eight punctuation
characters) is never lexed: the punctuation rules come first and do not look ahead.
`a := b` with `:=` and `=` registered lexes as `a`, `:`, `=`, `b`. -/
theorem d25_colon_operator :
    (lex [⟨":=", 7, fixInfixL⟩, ⟨"=", 7, fixInfixL⟩] "a := b".toList).map (·.map (·.kind))
      = .ok ["<sym>", ":", "=", "<sym>"] := by decide +kernel

/-! ## literal forms (instances) -/

/-- Each numeric, string and time literal form is one token (kernel-checked instances; the
recognisers themselves are tied to Go's regular expressions by differential testing). -/
theorem literal_examples :
    (lex [] "12.5e+3".toList).map (·.map (fun t => (t.kind, t.lexeme))) = .ok [("<num>", "12.5e+3")] ∧
    (lex [] "1e5".toList).map (·.map (fun t => (t.kind, t.lexeme))) = .ok [("<num>", "1e5")] ∧
    (lex [] "0x1F".toList).map (·.map (fun t => (t.kind, t.lexeme))) = .ok [("<num>", "0x1F")] ∧
    (lex [] "0b101".toList).map (·.map (fun t => (t.kind, t.lexeme))) = .ok [("<num>", "0b101")] ∧
    (lex [] "0o17".toList).map (·.map (fun t => (t.kind, t.lexeme))) = .ok [("<num>", "0o17")] ∧
    (lex [] "42".toList).map (·.map (fun t => (t.kind, t.lexeme))) = .ok [("<num>", "42")] ∧
    (lex [] "\"a\\\"b c\"".toList).map (·.map (fun t => (t.kind, t.lexeme)))
      = .ok [("<str>", "\"a\\\"b c\"")] ∧
    (lex [] "`a \" b`".toList).map (·.map (fun t => (t.kind, t.lexeme))) = .ok [("<str>", "`a \" b`")] ∧
    (lex [] "'2020-01-01 10:00'".toList).map (·.map (fun t => (t.kind, t.lexeme)))
      = .ok [("<time>", "'2020-01-01 10:00'")] := by
  decide +kernel

end Yae.C09

#print axioms Yae.C09.lex_partition
#print axioms Yae.C09.lex_token_at
#print axioms Yae.C09.lex_token_cursor
#print axioms Yae.C09.lex_ordered
#print axioms Yae.C09.lex_slice
#print axioms Yae.C09.lex_no_fuel
#print axioms Yae.C09.lex_words
#print axioms Yae.C09.lex_prim
#print axioms Yae.C09.prim_needs_hyp
#print axioms Yae.C09.sortOps_perm
#print axioms Yae.C09.sortOps_sorted
#print axioms Yae.C09.sortOps_stable
#print axioms Yae.C09.lex_longest
#print axioms Yae.C09.d25_colon_operator
#print axioms Yae.C09.literal_examples
