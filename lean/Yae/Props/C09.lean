/-
  C09. "Lexing any input either fails with a syntax error or yields tokens that appear in source
  order, do not overlap, are separated only by white space, and whose recorded index range, line
  and column reproduce exactly the token's text. Among registered symbolic operators the longest
  one that matches is chosen, identifier-like operators and the literals true / false are
  recognised only as whole words, the built-in '.' and '?' are never split out of a longer
  operator, and each numeric, string and time literal form is read as a single token."

  Model: `Yae.Model.Lexer` (`lex ops input`, input = the runes of the source).
  Proofs: `Yae.Proofs.Lex` (loop invariant `Lexed`), `Yae.Proofs.LexRules` (lexicon),
  `Yae.Proofs.LexRegex*` (recognisers = regular expressions), `Yae.Proofs.LexLiteral`.
  This file only states the property-level theorems.

  * "either fails with a syntax error or yields tokens": `lex` is a total function into
    `Except LexErr _`; `lex_no_fuel` excludes the model-only outcome `.fuel` (Go: endless loop)
    for every operator table without an operator of empty kind.
  * order / no overlap / white space only / positions: `lex_partition` (the gaps),
    `lex_token_at` (per token: prefix, recorded `Pos`), `lex_ordered`, `lex_slice`.
  * whole words: `lex_words`.   built-in `.`/`?`: `lex_prim` (needs: the user did not register
    `.` / `?` himself; counterexample `prim_needs_hyp`).
  * longest symbolic operator: `lex_longest`.  The unrestricted sentence is FALSE for the
    pinned lexicon (finding D25): the eight punctuation rules `: , ( ) [ ] { }` and then the
    built-in `.` `?` are tried BEFORE the user operators, so a registered `:=` is never lexed
    (`d25_colon_operator`).  `lex_longest` says exactly that: either one of those ten kinds
    won, or the winner is a registered operator at least as long as every registered symbolic
    operator that matches at that place.  `sortOps_perm` / `sortOps_sorted` / `sortOps_stable`
    specify `oper.Sort`.
  * literal forms: the ten literal rules of the lexicon are Go regular expressions.  They are
    given as terms `reOf p : Re` (`Yae.Spec.Regex`; `Re.show` prints the pattern texts of
    `factory.go` character for character) with a formal semantics: the language `Re.Matches`
    and the reference matcher `Re.matchLen` (backtracking, leftmost-first: ordered alternation,
    greedy quantifiers; sound and complete for the language, `Re.matchLen_sound/_complete`).
    `literal_forms`: every literal rule matches EXACTLY what its regular expression matches
    under the reference semantics, on every input (the hand-written recognisers of the model
    are proved equal to the reference matcher, `Pat.run_eq_matchLen`; none disagrees; the
    docstring claims "greedy is leftmost-first" for the two float patterns are theorems now).
    `keyword_form` / `identOp_form`: the same for `keywordPostfix` and `oper.IsIdentOp`.
    "read as a single token" in both directions:
      - `lex_literal`: a token of a literal kind is the leftmost-first match of the first
        literal pattern (in lexicon order) that matches at all there: a word of that pattern's
        language, with no prefix of the remaining input in the language of an earlier pattern;
      - `literal_single_token`: a word `d` of the language of a literal pattern, followed by
        something that cannot continue it (`LitEnd`: anything after a string / raw string /
        time literal; no identifier character after a symbol; no identifier character and no
        `.` after a number), is the next token as a whole, if no earlier rule matches;
        `quoted_single_token`, `number_single_token` discharge "no earlier rule" (only the
        user's operators remain as a hypothesis), `symbol_single_token` the earlier literal
        rules; `lex_quoted_first` / `lex_number_first` say it for `lex` at the start of the
        input.
      - Not every word of a NUM language is one token even before a blank: the first float
        pattern allows one exponent and comes first, so `1.5e3e4` (in the language of the
        second) is lexed `1.5e3`, `e4` (`two_exponents`).  That is the lexicon's rule order
        (Go behaves the same), not a defect of the model; it is why `number_single_token`
        excludes words of the second float pattern that have a fraction (with one exponent
        they are words of the first; with more they are not one token).
    What remains trusted: that Go's `regexp` implements leftmost-first matching of these ten
    expressions as `Re.m` defines it (`regexp/syntax`'s parser/simplifier and the matching
    engines are not modelled; for loops whose body can match the empty word Go's engines
    deviate from every simple backtracking rule, see `Yae.Spec.Regex`; the only such loop in
    the lexer is in the string pattern, whose language has at most one word among the prefixes
    of any input, `string_unique`, so there it cannot matter; for the other nine
    `Pat.run_eq_policy` shows that no decision about empty iterations changes the match).  `Re.show` and `Re.matchLen`
    are executable and meant for the driver's differential test (pattern texts against the Go
    source, `Re.matchLen` / `Pat.run` against `regexp`); that hook is not written yet, the
    comparison was run once by hand (see `Yae.Spec.Regex`).
-/
import Yae.Proofs.LexRules
import Yae.Proofs.LexLiteral
namespace Yae.C09
open Yae

/-! ## layout -/

/-- The tokens partition the input up to white space: there are runs of white space
`gaps₀ … gapsₙ₋₁`, `last` with
`s = gaps₀ ++ lexeme₀ ++ gaps₁ ++ lexeme₁ ++ … ++ gapsₙ₋₁ ++ lexemeₙ₋₁ ++ last`. -/
theorem lex_partition {ops : List Operator} {s : List Char} {ts : List Token}
    (h : lex ops s = .ok ts) :
    ∃ (gaps : List (List Char)) (last : List Char), gaps.length = ts.length ∧
      (∀ w ∈ gaps, ∀ c ∈ w, isSpace c = true) ∧ (∀ c ∈ last, isSpace c = true) ∧
      s = (List.zipWith (fun w (t : Token) => w ++ t.lexeme.toList) gaps ts).flatten ++ last :=
  (lex_lexed h).partition

/-- Per token: the input is `pre ++ lexeme ++ post`; the lexeme is not empty and does not start
with white space; the recorded position is: `idx` = number of runes before the token, `idxEnd` =
`idx` + length of the lexeme, `col` = number of runes since the last newline before the token
(`colOf pre`), `line` = number of newlines before it; and the token is exactly what the first
matching rule of the lexicon matched on the remaining input `lexeme ++ post` (its kind, and its
`n` runes). -/
theorem lex_token_at {ops : List Operator} {s : List Char} {ts : List Token}
    (h : lex ops s = .ok ts) {t : Token} (ht : t ∈ ts) :
    ∃ pre post n, s = pre ++ t.lexeme.toList ++ post ∧ t.lexeme.toList ≠ [] ∧
      (∀ c r, t.lexeme.toList = c :: r → isSpace c = false) ∧
      t.pos = ⟨pre.length, pre.length + t.lexeme.toList.length, colOf pre, pre.count '\n'⟩ ∧
      firstMatch (newLexicon ops) (t.lexeme.toList ++ post) = some (t.kind, n) ∧
      t.lexeme.toList = (t.lexeme.toList ++ post).take n := by
  obtain ⟨pre, post, n, h1, h2, h3, h4, h5, h6⟩ := (lex_lexed h).tokAt ht
  exact ⟨pre, post, n, h1, h2, h3, by rw [h4, tokPos_zero], h5, h6⟩

/-- The cursor is `Pos.move` folded over the consumed prefix (the form the proof uses). -/
theorem lex_token_cursor {ops : List Operator} {s : List Char} {ts : List Token}
    (h : lex ops s = .ok ts) {t : Token} (ht : t ∈ ts) :
    ∃ pre post, s = pre ++ t.lexeme.toList ++ post ∧
      t.pos = { pre.foldl Pos.move Pos.zero with
                idxEnd := ((pre ++ t.lexeme.toList).foldl Pos.move Pos.zero).idx } := by
  obtain ⟨pre, post, n, h1, _, _, h4, _, _⟩ := (lex_lexed h).tokAt ht
  exact ⟨pre, post, h1, by rw [h4]; simp [tokPos, Pos.moves, List.foldl_append]⟩

/-- Source order, no overlap, inside the input, non-empty, `idxEnd - idx` = length of the text. -/
theorem lex_ordered {ops : List Operator} {s : List Char} {ts : List Token}
    (h : lex ops s = .ok ts) :
    (∀ t ∈ ts, 0 ≤ t.pos.idx ∧ t.pos.idx < t.pos.idxEnd ∧ t.pos.idxEnd ≤ s.length ∧
      t.pos.idxEnd = t.pos.idx + t.lexeme.toList.length) ∧
    ts.Pairwise (fun a b => a.pos.idxEnd ≤ b.pos.idx) := by
  have := (lex_lexed h).bounds
  simpa [Pos.zero] using this

/-- The recorded index range reproduces exactly the token's text. -/
theorem lex_slice {ops : List Operator} {s : List Char} {ts : List Token}
    (h : lex ops s = .ok ts) {t : Token} (ht : t ∈ ts) :
    (s.drop t.pos.idx.toNat).take (t.pos.idxEnd - t.pos.idx).toNat = t.lexeme.toList := by
  obtain ⟨pre, post, n, h1, _, _, h4, _, _⟩ := lex_token_at h ht
  rw [h4, h1]
  simp only [List.append_assoc, Int.toNat_natCast, List.drop_left]
  have : ((pre.length : Int) + (t.lexeme.toList.length : Int) - (pre.length : Int)).toNat
      = t.lexeme.toList.length := by omega
  rw [this]; simp

/-- non-vacuity of the layout theorems (and a look at the recorded positions):
`"a\n  +b"` gives `a` at line 0 col 0, `+` at line 1 col 2, `b` at line 1 col 3. -/
example : lex [⟨"+", 7, fixInfixL⟩] "a\n  +b".toList = .ok
    [⟨"<sym>", "a", ⟨0, 1, 0, 0⟩⟩, ⟨"+", "+", ⟨4, 5, 2, 1⟩⟩, ⟨"<sym>", "b", ⟨5, 6, 3, 1⟩⟩] := by
  decide +kernel

/-! ## termination of the loop -/

/-- With no operator of empty kind the lexer never runs out of fuel: the result is a token list
or the syntax error. -/
theorem lex_no_fuel {ops : List Operator} (hops : ∀ o ∈ ops, o.kind ≠ "") (s : List Char) :
    lex ops s ≠ .error .fuel :=
  lexLoop_no_fuel (newLexicon_progress hops) _ _ _ (Nat.lt_succ_self _)

example : ∀ o ∈ [(⟨"+", 7, fixInfixL⟩ : Operator)], o.kind ≠ "" := by simp

/-- The hypothesis is needed: an operator of empty kind matches the empty string everywhere (Go
loops for ever; the model reports `.fuel`). -/
example : lex [⟨"", 7, fixInfixL⟩] "a".toList = .error .fuel := by decide +kernel

/-! ## whole words -/

/-- A token whose kind is identifier-like (an identifier-like operator, `true`, `false`) is that
word exactly, and the character after it, if any, cannot continue an identifier. -/
theorem lex_words {ops : List Operator} {s : List Char} {ts : List Token}
    (h : lex ops s = .ok ts) {t : Token} (ht : t ∈ ts) (hk : isIdentOp t.kind.toList = true) :
    t.lexeme = t.kind ∧
    ∃ pre post, s = pre ++ t.lexeme.toList ++ post ∧ t.pos.idx = pre.length ∧
      ∀ c r, post = c :: r → isIdentCont c = false := by
  obtain ⟨pre, post, n, h1, _, _, h4, h5, h6⟩ := lex_token_at h ht
  obtain ⟨w1, w2, w3⟩ := firstMatch_word h5 hk
  have hlex : t.lexeme.toList = t.kind.toList := by
    rw [h6, w1, w2]; simp
  have hdrop : (t.lexeme.toList ++ post).drop t.kind.toList.length = post := by
    rw [← hlex]; simp
  refine ⟨String.toList_inj.mp hlex, pre, post, h1, by rw [h4], ?_⟩
  intro c r hc
  exact w3 c r (by rw [hdrop, hc])

/-- `true` and `false` are identifier-like kinds, so `lex_words` applies to them. -/
example : isIdentOp "true".toList = true ∧ isIdentOp "false".toList = true := by decide

/-- `truex` is one identifier, `true x` is the literal followed by an identifier. -/
example : lex [] "truex".toList = .ok [⟨"<sym>", "truex", ⟨0, 5, 0, 0⟩⟩] ∧
    lex [] "true x".toList
      = .ok [⟨"true", "true", ⟨0, 4, 0, 0⟩⟩, ⟨"<sym>", "x", ⟨5, 6, 5, 0⟩⟩] := by decide +kernel

/-! ## the built-in `.` and `?` -/

/-- A `.` (resp. `?`) token is never followed by an operator character, i.e. it is never split
out of a longer run of operator characters, provided the user has not registered an operator
of that very kind. -/
theorem lex_prim {ops : List Operator} {s : List Char} {ts : List Token}
    (h : lex ops s = .ok ts) {t : Token} (ht : t ∈ ts) (hk : t.kind = "." ∨ t.kind = "?")
    (hops : ∀ o ∈ ops, o.kind ≠ t.kind) :
    t.lexeme = t.kind ∧
    ∃ pre post, s = pre ++ t.lexeme.toList ++ post ∧ t.pos.idx = pre.length ∧
      operHasPrefix post = false := by
  obtain ⟨pre, post, n, h1, _, _, h4, h5, h6⟩ := lex_token_at h ht
  obtain ⟨w1, w2, w3⟩ := firstMatch_prim h5 hk hops
  have hl : t.kind.toList.length = 1 := by rcases hk with hk | hk <;> rw [hk] <;> decide
  have hlex : t.lexeme.toList = t.kind.toList := by
    rw [h6, w1, w2]; simp [hl]
  have hdrop : (t.lexeme.toList ++ post).drop 1 = post := by
    rw [hlex, ← hl]; simp
  exact ⟨String.toList_inj.mp hlex, pre, post, h1, by rw [h4], by rw [← hdrop]; exact w3⟩

example : ∀ o ∈ [(⟨".^.", 7, fixInfixL⟩ : Operator)], o.kind ≠ "." := by decide

/-- `a.^.b` with `.^.` registered is three tokens; `a.b` has the built-in `.`. -/
example : (lex [⟨".^.", 7, fixInfixL⟩] "a.^.b".toList).map (·.map (·.kind)) = .ok ["<sym>", ".^.", "<sym>"] ∧
    (lex [⟨".^.", 7, fixInfixL⟩] "a.b".toList).map (·.map (·.kind)) = .ok ["<sym>", ".", "<sym>"] := by
  decide +kernel

/-- The hypothesis of `lex_prim` is needed: if the user registers `.` himself (and `+`), then in
`a.+b` the built-in rule refuses `.` (an operator character follows) but the user's own `.` rule
takes it: a `.` token directly followed by `+`. -/
theorem prim_needs_hyp :
    (lex [⟨".", 7, fixInfixL⟩, ⟨"+", 7, fixInfixL⟩] "a.+b".toList).map (·.map (·.kind))
      = .ok ["<sym>", ".", "+", "<sym>"] := by decide +kernel

/-! ## `oper.Sort` and the longest symbolic operator -/

/-- `oper.Sort` permutes the table, … -/
theorem sortOps_perm (ops : List Operator) : (sortOps ops).Perm ops := Yae.sortOps_perm ops

/-- … orders it by descending byte length of the kind, … -/
theorem sortOps_sorted (ops : List Operator) :
    (sortOps ops).Pairwise (fun a b => a.kind.utf8ByteSize ≥ b.kind.utf8ByteSize) :=
  Yae.sortOps_sorted ops

/-- … and is stable: operators of equal byte length keep their registration order. -/
theorem sortOps_stable (ops : List Operator) (n : Nat) :
    (sortOps ops).filter (fun o => o.kind.utf8ByteSize == n)
      = ops.filter (fun o => o.kind.utf8ByteSize == n) :=
  Yae.sortOps_stable ops n

/-- Longest match.  Let `o` be any registered SYMBOLIC operator (not identifier-like) whose kind
is a prefix of the input at the place where token `t` starts.  Then `t` is one of the eight
punctuation tokens, or the built-in `.` / `?`, or `t` is a registered operator whose kind is at
least as long (in bytes, the sort key) as `o`'s.

Full statement ("the longest registered symbolic operator that matches is chosen") is FALSE
because of the first three alternatives: see `d25_colon_operator`. -/
theorem lex_longest {ops : List Operator} {s : List Char} {ts : List Token}
    (h : lex ops s = .ok ts) {t : Token} (ht : t ∈ ts) :
    ∃ pre post, s = pre ++ t.lexeme.toList ++ post ∧ t.pos.idx = pre.length ∧
      ∀ o ∈ ops, isIdentOp o.kind.toList = false →
        o.kind.toList.isPrefixOf (t.lexeme.toList ++ post) = true →
        t.kind ∈ [":", ",", "(", ")", "[", "]", "{", "}"] ∨ t.kind = "." ∨ t.kind = "?" ∨
        ∃ o' ∈ ops, o'.kind = t.kind ∧ o.kind.utf8ByteSize ≤ o'.kind.utf8ByteSize := by
  obtain ⟨pre, post, n, h1, _, _, h4, h5, _⟩ := lex_token_at h ht
  exact ⟨pre, post, h1, by rw [h4], fun o ho hs hp => firstMatch_longest h5 ho hs hp⟩

/-- non-vacuity / illustration: with `<`, `<=`, `<=>` registered in any order, `a<=>b` has the
single operator token `<=>`. -/
example : (lex [⟨"<", 7, fixInfixL⟩, ⟨"<=>", 7, fixInfixL⟩, ⟨"<=", 7, fixInfixL⟩]
    "a<=>b".toList).map (·.map (·.kind)) = .ok ["<sym>", "<=>", "<sym>"] := by decide +kernel

/-- **D25**: a registered operator that starts with `:` (or any other of the eight punctuation
characters) is never lexed: the punctuation rules come first and do not look ahead.
`a := b` with `:=` and `=` registered lexes as `a`, `:`, `=`, `b`. -/
theorem d25_colon_operator :
    (lex [⟨":=", 7, fixInfixL⟩, ⟨"=", 7, fixInfixL⟩] "a := b".toList).map (·.map (·.kind))
      = .ok ["<sym>", ":", "=", "<sym>"] := by decide +kernel

/-! ## literal forms -/

/-- The lexicon is the early rules (punctuation, built-in and registered operators, `true`,
`false`) followed by the ten literal rules, `litPats` = kind and pattern in this order:
`<num>` floatA, floatB, bin, hex, oct, int; `<str>` str, raw; `<time>` time; `<sym>` sym. -/
theorem literal_rules (ops : List Operator) :
    newLexicon ops = earlyRules ops ++ litPats.map litRule := newLexicon_split ops

/-- **Each literal rule matches exactly what its regular expression matches under the
reference semantics**: `lexer.regex(kind, pattern)` is `FindString` of `^(?:pattern)` with the
empty match counting as no match (`Re.find`); that never happens (`= Re.matchLen`); a match is
a non-empty prefix of the input in the language of the pattern; and the rule fails exactly when
no prefix of the input is in the language. -/
theorem literal_forms (p : Pat) (s : List Char) :
    (Matcher.regex p).run s = (reOf p).find s ∧
    (reOf p).find s = (reOf p).matchLen s ∧
    (∀ n, (Matcher.regex p).run s = some n →
      0 < n ∧ n ≤ s.length ∧ (reOf p).Matches (s.take n)) ∧
    ((Matcher.regex p).run s = none ↔ ∀ u v, s = u ++ v → ¬ (reOf p).Matches u) := by
  refine ⟨regex_run p s, Re.find_eq_matchLen (reOf_not_nullable p) s,
    fun n h => regex_run_some h, regex_run_none, ?_⟩
  intro h
  cases hr : (Matcher.regex p).run s with
  | none => rfl
  | some n =>
    obtain ⟨_, _, hm⟩ := regex_run_some hr
    exact absurd hm (h _ _ (List.take_append_drop n s).symm)

/-- The printed regular expressions are the pattern texts of `factory.go` (more in
`Yae.Spec.Regex`). -/
example : (reOf .floatB).show = "(?:0|[1-9][0-9]*)(?:[.][0-9]+)?(?:[eE][-+]?[0-9]+)+" ∧
    (reOf .str).show = "\"(?:[^\"\\\\]*|\\\\[\"\\\\trnbf\\/]|\\\\u[0-9a-fA-F]{4})*\"" := by decide

/-- The keyword rule: the word is a prefix of the input and `keywordPostfix`
(`^[a-zA-Z\d\p{L}_]+`) does not match what follows. -/
theorem keyword_form (kw s : List Char) :
    (Matcher.keyword kw).run s =
      if kw.isPrefixOf s = true ∧ reKeywordPostfix.matchPrefix (s.drop kw.length) = false
      then some kw.length else none := Re.keyword_run kw s

/-- `oper.IsIdentOp` is a whole-string match of `^[a-zA-Z\p{L}_][a-zA-Z0-9\p{L}_]*$`. -/
theorem identOp_form (s : List Char) : isIdentOp s = reIdent.matchWhole s := Re.isIdentOp_eq s

/-- At most one prefix of any input is a string literal (resp. raw string, time literal): no
priority and no convention about empty iterations enters for these three patterns. -/
theorem string_unique : Re.UniquePrefix (reOf .str) ∧ Re.UniquePrefix (reOf .raw) ∧
    Re.UniquePrefix (reOf .time) :=
  ⟨Re.str_uniquePrefix, Re.raw_uniquePrefix, Re.time_uniquePrefix⟩

/-- **token ⇒ language.**  A token of a literal kind (which is not also the kind of a registered
operator) is the leftmost-first match, at the place where it starts, of a literal pattern `p` of
that kind: `n` = its length; it is a word of the language of `p`; and no prefix of the remaining
input is in the language of a literal pattern that the lexicon tries before `p`. -/
theorem lex_literal {ops : List Operator} {s : List Char} {ts : List Token}
    (h : lex ops s = .ok ts) {t : Token} (ht : t ∈ ts)
    (hk : t.kind ∈ ["<num>", "<str>", "<time>", "<sym>"]) (hops : ∀ o ∈ ops, o.kind ≠ t.kind) :
    ∃ pre post before after p, s = pre ++ t.lexeme.toList ++ post ∧ t.pos.idx = pre.length ∧
      litPats = before ++ (t.kind, p) :: after ∧
      (reOf p).matchLen (t.lexeme.toList ++ post) = some t.lexeme.toList.length ∧
      (reOf p).Matches t.lexeme.toList ∧
      ∀ kq ∈ before, ∀ u v, t.lexeme.toList ++ post = u ++ v → ¬ (reOf kq.2).Matches u := by
  obtain ⟨pre, post, n, h1, _, _, h4, h5, h6⟩ := lex_token_at h ht
  obtain ⟨before, after, p, hl, _, hm, _, hle, hmat, hb⟩ := firstMatch_literal_inv h5 hk hops
  have hn : t.lexeme.toList.length = n := by
    have := congrArg List.length h6
    rw [List.length_take] at this; omega
  exact ⟨pre, post, before, after, p, h1, by rw [h4], hl, by rw [hn]; exact hm,
    by rw [h6]; exact hmat, hb⟩

/-- **language ⇒ token.**  Let `d` be a word of the language of the literal pattern `p` (of
kind `k`) and `post` something that cannot continue it.  If no early rule matches `d ++ post`
and no prefix of `d ++ post` is in the language of a literal pattern tried before `p`, then
the first matching rule at `d ++ post` is `p`'s and it matches exactly `d`; so (`lex_token_at`)
when the lexer stands there the next token is `d`, of kind `k`. -/
theorem literal_single_token {ops : List Operator} {k : String} {p : Pat}
    {before after : List (String × Pat)} (hsplit : litPats = before ++ (k, p) :: after)
    {d post : List Char} (hd : (reOf p).Matches d) (hpost : LitEnd p post)
    (hearly : firstMatch (earlyRules ops) (d ++ post) = none)
    (hbefore : ∀ kq ∈ before, ∀ u v, d ++ post = u ++ v → ¬ (reOf kq.2).Matches u) :
    firstMatch (newLexicon ops) (d ++ post) = some (k, d.length) :=
  firstMatch_literal hsplit hd hpost hearly hbefore

/-- A string, raw-string or time literal followed by ANYTHING is one token, provided no
registered operator's kind is a prefix of the input there. -/
theorem quoted_single_token {ops : List Operator} {k : String} {p : Pat}
    (hkp : (k, p) ∈ [("<str>", Pat.str), ("<str>", Pat.raw), ("<time>", Pat.time)])
    {d : List Char} (hd : (reOf p).Matches d) (post : List Char)
    (hops : ∀ o ∈ ops, o.kind.toList.isPrefixOf (d ++ post) = false) :
    firstMatch (newLexicon ops) (d ++ post) = some (k, d.length) :=
  firstMatch_quoted hkp hd post hops

/-- A numeric literal (a word of the language of one of the six numeric patterns), followed by
the end of the input or by a character that is neither an identifier character nor `.`, is one
`<num>` token, provided no registered operator's kind is a prefix of the input there; for the
second float pattern this is claimed for words without a fraction only (with a fraction and
one exponent the word is in the language of the first float pattern; with a fraction and more
exponents it is NOT one token: `two_exponents`). -/
theorem number_single_token {ops : List Operator} {p : Pat}
    (hp : p ∈ [Pat.floatA, .floatB, .bin, .hex, .oct, .int])
    {d : List Char} (hd : (reOf p).Matches d) {post : List Char} (hpost : Re.NumEnd post)
    (hB : p = .floatB → '.' ∉ d)
    (hops : ∀ o ∈ ops, o.kind.toList.isPrefixOf (d ++ post) = false) :
    firstMatch (newLexicon ops) (d ++ post) = some ("<num>", d.length) :=
  firstMatch_number hp hd hpost hB hops

/-- A symbol followed by the end of the input or by a character that is not an identifier
character is one `<sym>` token, provided no early rule matches there (`true`, `false` and
identifier-like operators are words of the symbol pattern too, and their rules come first:
`lex_words`). -/
theorem symbol_single_token {ops : List Operator} {d : List Char} (hd : (reOf .sym).Matches d)
    {post : List Char} (hpost : Re.NoHead isIdentCont post)
    (hearly : firstMatch (earlyRules ops) (d ++ post) = none) :
    firstMatch (newLexicon ops) (d ++ post) = some ("<sym>", d.length) :=
  firstMatch_symbol hd hpost hearly

/-- The same for `lex` at the start of the input: the first token is the literal. -/
theorem lex_quoted_first {ops : List Operator} {k : String} {p : Pat}
    (hkp : (k, p) ∈ [("<str>", Pat.str), ("<str>", Pat.raw), ("<time>", Pat.time)])
    {d : List Char} (hd : (reOf p).Matches d) (post : List Char)
    (hops : ∀ o ∈ ops, o.kind.toList.isPrefixOf (d ++ post) = false)
    {ts : List Token} (h : lex ops (d ++ post) = .ok ts) :
    ∃ t ts', ts = t :: ts' ∧ t.kind = k ∧ t.lexeme.toList = d ∧
      t.pos = ⟨0, d.length, 0, 0⟩ := by
  have hfm := firstMatch_quoted hkp hd post hops
  obtain ⟨c, r, rfl, hc⟩ := Pat.first_of_matches hd
  have hsp : isSpace c = false := by
    simp only [List.mem_cons, List.not_mem_nil, or_false, Prod.mk.injEq] at hkp
    rcases hkp with ⟨_, rfl⟩ | ⟨_, rfl⟩ | ⟨_, rfl⟩ <;>
      (simp only [Pat.first, beq_iff_eq] at hc; subst hc; decide)
  obtain ⟨t, ts', rfl, h1, h2, h3⟩ := lex_first_token (r := r ++ post) hsp hfm h
  have h2' : t.lexeme.toList = c :: r := by
    rw [h2, ← List.cons_append, List.take_left]
  exact ⟨t, ts', rfl, h1, h2', by rw [h3, h2']⟩

theorem lex_number_first {ops : List Operator} {p : Pat}
    (hp : p ∈ [Pat.floatA, .floatB, .bin, .hex, .oct, .int])
    {d : List Char} (hd : (reOf p).Matches d) {post : List Char} (hpost : Re.NumEnd post)
    (hB : p = .floatB → '.' ∉ d)
    (hops : ∀ o ∈ ops, o.kind.toList.isPrefixOf (d ++ post) = false)
    {ts : List Token} (h : lex ops (d ++ post) = .ok ts) :
    ∃ t ts', ts = t :: ts' ∧ t.kind = "<num>" ∧ t.lexeme.toList = d ∧
      t.pos = ⟨0, d.length, 0, 0⟩ := by
  have hfm := firstMatch_number hp hd hpost hB hops
  obtain ⟨c, r, rfl, hc⟩ := Pat.first_of_matches hd
  have hc' : isDigit c = true := by
    simp only [List.mem_cons, List.not_mem_nil, or_false] at hp
    rcases hp with rfl | rfl | rfl | rfl | rfl | rfl <;> exact hc
  obtain ⟨t, ts', rfl, h1, h2, h3⟩ :=
    lex_first_token (r := r ++ post) (isSpace_digit_quote (.inl hc')) hfm h
  have h2' : t.lexeme.toList = c :: r := by
    rw [h2, ← List.cons_append, List.take_left]
  exact ⟨t, ts', rfl, h1, h2', by rw [h3, h2']⟩

/-! ### non-vacuity -/

/-- `12.5e+3` is in the language of the first float pattern, `42` of the integer pattern,
`"a\"b"` of the string pattern (by completeness of the reference matcher: it finds them). -/
example : (reOf .floatA).Matches "12.5e+3".toList ∧ (reOf .int).Matches "42".toList ∧
    (reOf .str).Matches "\"a\\\"b\"".toList := by
  refine ⟨?_, ?_, ?_⟩
  · have h : (reOf .floatA).matchLen "12.5e+3".toList = some 7 := by decide
    simpa using (Re.matchLen_take h).2
  · have h : (reOf .int).matchLen "42".toList = some 2 := by decide
    simpa using (Re.matchLen_take h).2
  · have h : (reOf .str).matchLen "\"a\\\"b\"".toList = some 6 := by decide
    simpa using (Re.matchLen_take h).2

/-- the hypotheses of `number_single_token` / `quoted_single_token` hold for `42 + x` with `+`
registered, and for a string followed directly by a letter -/
example : Re.NumEnd " + x".toList ∧
    (∀ o ∈ [(⟨"+", 7, fixInfixL⟩ : Operator)], o.kind.toList.isPrefixOf "42 + x".toList = false) := by
  refine ⟨?_, by decide⟩
  intro c t e
  have : c = ' ' := by
    have := congrArg List.head? e
    simpa using this.symm
  subst this; decide

/-- the reference matcher on the lexer's patterns (kernel-evaluated): the leftmost-first match
of the first float pattern in `1.5e3e4` is `1.5e3`, of the second `1.5e3e4`; the integer
pattern finds `0` in `007`; the hex pattern `0x1F` in `0x1Fg`. -/
example : (reOf .floatA).matchLen "1.5e3e4".toList = some 5 ∧
    (reOf .floatB).matchLen "1.5e3e4".toList = some 7 ∧
    (reOf .int).matchLen "007".toList = some 1 ∧
    (reOf .hex).matchLen "0x1Fg".toList = some 4 ∧
    (reOf .floatB).matchLen "1.e5".toList = none := by decide

/-- `1.5e3e4` is a word of the second float pattern's language, yet it is lexed as two tokens
even before a blank: the first float pattern is tried first and stops after one exponent. -/
theorem two_exponents :
    (reOf .floatB).Matches "1.5e3e4".toList ∧
    (lex [] "1.5e3e4 ".toList).map (·.map (fun t => (t.kind, t.lexeme)))
      = .ok [("<num>", "1.5e3"), ("<sym>", "e4")] := by
  refine ⟨?_, by decide +kernel⟩
  have h : (reOf .floatB).matchLen "1.5e3e4".toList = some 7 := by decide
  simpa using (Re.matchLen_take h).2

/-- Each numeric, string and time literal form is one token (kernel-checked instances). -/
theorem literal_examples :
    (lex [] "12.5e+3".toList).map (·.map (fun t => (t.kind, t.lexeme))) = .ok [("<num>", "12.5e+3")] ∧
    (lex [] "1e5".toList).map (·.map (fun t => (t.kind, t.lexeme))) = .ok [("<num>", "1e5")] ∧
    (lex [] "0x1F".toList).map (·.map (fun t => (t.kind, t.lexeme))) = .ok [("<num>", "0x1F")] ∧
    (lex [] "0b101".toList).map (·.map (fun t => (t.kind, t.lexeme))) = .ok [("<num>", "0b101")] ∧
    (lex [] "0o17".toList).map (·.map (fun t => (t.kind, t.lexeme))) = .ok [("<num>", "0o17")] ∧
    (lex [] "42".toList).map (·.map (fun t => (t.kind, t.lexeme))) = .ok [("<num>", "42")] ∧
    (lex [] "\"a\\\"b c\"".toList).map (·.map (fun t => (t.kind, t.lexeme)))
      = .ok [("<str>", "\"a\\\"b c\"")] ∧
    (lex [] "`a \" b`".toList).map (·.map (fun t => (t.kind, t.lexeme))) = .ok [("<str>", "`a \" b`")] ∧
    (lex [] "'2020-01-01 10:00'".toList).map (·.map (fun t => (t.kind, t.lexeme)))
      = .ok [("<time>", "'2020-01-01 10:00'")] := by
  decide +kernel

end Yae.C09

#print axioms Yae.C09.lex_partition
#print axioms Yae.C09.lex_token_at
#print axioms Yae.C09.lex_token_cursor
#print axioms Yae.C09.lex_ordered
#print axioms Yae.C09.lex_slice
#print axioms Yae.C09.lex_no_fuel
#print axioms Yae.C09.lex_words
#print axioms Yae.C09.lex_prim
#print axioms Yae.C09.prim_needs_hyp
#print axioms Yae.C09.sortOps_perm
#print axioms Yae.C09.sortOps_sorted
#print axioms Yae.C09.sortOps_stable
#print axioms Yae.C09.lex_longest
#print axioms Yae.C09.d25_colon_operator
#print axioms Yae.C09.literal_examples
#print axioms Yae.C09.literal_rules
#print axioms Yae.C09.literal_forms
#print axioms Yae.C09.keyword_form
#print axioms Yae.C09.identOp_form
#print axioms Yae.C09.string_unique
#print axioms Yae.C09.lex_literal
#print axioms Yae.C09.literal_single_token
#print axioms Yae.C09.quoted_single_token
#print axioms Yae.C09.number_single_token
#print axioms Yae.C09.symbol_single_token
#print axioms Yae.C09.lex_quoted_first
#print axioms Yae.C09.lex_number_first
#print axioms Yae.C09.two_exponents
