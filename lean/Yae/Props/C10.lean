/-
  C10. "Operator applications, the ?: conditional, method-call syntax and parentheses are pure
  notation: x op y, op x, c ? a : b, o.f(args) and (e) have the same type and value (or fail
  alike) as the explicit calls op(x,y), op(x), if(c,a,b), f(o,args) and e. After desugaring a
  tree contains only core forms, desugaring again changes nothing, the original tree is left
  untouched, and receiver and arguments keep their source order."

  Model: `Yae.Model.Desugar` (`desugar` = `trans.Desugar`, total; `desugarGo` adds the Go panic
  on a ternary not named `?`).  Proofs: `Yae.Proofs.Desugar`.  This file only states the
  property-level theorems.

  How the sentences map to theorems

  * "pure notation … same type and value (or fail alike)": the type checker, the compiler and
    the evaluator of the model (`check`, `compile`, `eval`) are only ever applied to
    `desugar e` (on a sugar node they answer `unreachable`).  So two source trees have the same
    type / value / failure as soon as they have the same desugaring.  `shape_binary`,
    `shape_unary`, `shape_ternary`, `shape_method`, `shape_group` give the desugaring of each
    notation; `notation_binary` … `notation_group` restate them as "the sugared tree and the
    explicit call desugar to the same tree" (the explicit call being the one with the positions
    and the `DBGCol` that `trans.Desugar` copies: call position = position of the sugar node,
    callee identifier at the operator token, `DBGCol` = column of the operator token);
    `same_downstream` is the consequence for every function of the desugared tree.
  * "only core forms": `core`, `core_go`.
  * "desugaring again changes nothing": FALSE in general (finding D18, kept visible):
    `not_idempotent` is the kernel-checked witness `(o.f)(x)`; `idem_partial` proves
    idempotence for every tree without a call whose callee is a parenthesised member access.
    `core_fixed` says what `desugar` does to a core tree: it rebuilds every node with the
    checker attachments erased, and `core_method_rewritten` that a core call whose callee is a
    bare `Member` IS rewritten (the method-call rule does not distinguish sugar from core).
  * "the original tree is left untouched": `desugar : Expr → Expr` is a function on immutable
    values; nothing can be stated beyond that in a pure model.  (The model was obtained from Go
    by differential testing, where the harness serialises the input tree AFTER `Desugar`
    returned; a mutation would show up as a disagreement.  See `Yae/Driver/Parse.lean`.)
  * "receiver and arguments keep their source order": `shape_method` (receiver first, then the
    arguments), `args_order` (the argument list is mapped element by element), `shape_binary`
    (left operand, right operand), `shape_ternary` (condition, then-branch, else-branch).
-/
import Yae.Proofs.Desugar
import Yae.Model.Check
namespace Yae.C10
open Yae

/-! ## the five rewriting equations -/

/-- `x op y ↦ op(x, y)`: call at the node's position, callee identifier and `DBGCol` from the
operator token, left operand before right operand, fixity forgotten. -/
theorem shape_binary (p : Pos) (name : String) (np : Pos) (fx : Nat) (l r : Expr) :
    desugar (.binary p name np fx l r)
      = .call p np.col (.ident np name) (.cons (desugar l) (.cons (desugar r) .nil)) none "" (-1) :=
  rfl

/-- `op x` / `x op` `↦ op(x)` (prefix and postfix alike). -/
theorem shape_unary (p : Pos) (name : String) (np : Pos) (e : Expr) (isPrefix : Bool) :
    desugar (.unary p name np e isPrefix)
      = .call p np.col (.ident np name) (.cons (desugar e) .nil) none "" (-1) :=
  rfl

/-- `c ? a : b ↦ if(c, a, b)`; the callee identifier `if` sits at the `?` token. -/
theorem shape_ternary (p : Pos) (name : String) (np : Pos) (c a b : Expr) :
    desugar (.ternary p name np c a b)
      = .call p np.col (.ident np "if")
          (.cons (desugar c) (.cons (desugar a) (.cons (desugar b) .nil))) none "" (-1) :=
  rfl

/-- `o.f(args) ↦ f(o, args)`: the callee identifier sits at the field-name token, the call keeps
its position and `DBGCol`, the receiver comes first, the attachments of both nodes are dropped. -/
theorem shape_method (p : Pos) (col : Int) (mp : Pos) (mcol : Int) (o : Expr) (f : String)
    (fp : Pos) (oty : Option Ty) (mi : Int) (args : ExprList) (cty : Option Ty) (res : String)
    (idx : Int) :
    desugar (.call p col (.member mp mcol o f fp oty mi) args cty res idx)
      = .call p col (.ident fp f) (.cons (desugar o) (desugarList args)) none "" (-1) :=
  rfl

/-- `(e) ↦ e` -/
theorem shape_group (p : Pos) (e : Expr) : desugar (.group p e) = desugar e := rfl

/-- Any other call: callee and arguments are desugared in place. -/
theorem shape_call {p : Pos} {col : Int} {callee : Expr} {args : ExprList} {cty : Option Ty}
    {res : String} {idx : Int} (h : callee.isMember = false) :
    desugar (.call p col callee args cty res idx)
      = .call p col (desugar callee) (desugarList args) none "" (-1) :=
  desugar_call_of_not_member h

example : (Expr.ident Pos.zero "f").isMember = false := rfl

/-- The argument list keeps its length and order: it is mapped element by element. -/
theorem args_order (es : ExprList) : (desugarList es).toList = es.toList.map desugar :=
  desugarList_toList es

/-- … and so do list elements, map pairs (key before value) and object fields. -/
theorem pairs_order (ps : PairList) :
    (desugarPairs ps).toList = ps.toList.map (fun kv => (desugar kv.1, desugar kv.2)) :=
  desugarPairs_toList ps

theorem fields_order (fs : FieldEList) :
    (desugarFields fs).toList = fs.toList.map (fun ne => (ne.1, desugar ne.2)) :=
  desugarFields_toList fs

/-! ## notation = explicit call -/

/-- `x op y` and the explicit call `op(x, y)` desugar to the same tree. -/
theorem notation_binary (p : Pos) (name : String) (np : Pos) (fx : Nat) (l r : Expr)
    (cty : Option Ty) (res : String) (idx : Int) :
    desugar (.binary p name np fx l r)
      = desugar (.call p np.col (.ident np name) (.cons l (.cons r .nil)) cty res idx) := rfl

theorem notation_unary (p : Pos) (name : String) (np : Pos) (e : Expr) (isPrefix : Bool)
    (cty : Option Ty) (res : String) (idx : Int) :
    desugar (.unary p name np e isPrefix)
      = desugar (.call p np.col (.ident np name) (.cons e .nil) cty res idx) := rfl

theorem notation_ternary (p : Pos) (name : String) (np : Pos) (c a b : Expr)
    (cty : Option Ty) (res : String) (idx : Int) :
    desugar (.ternary p name np c a b)
      = desugar (.call p np.col (.ident np "if") (.cons c (.cons a (.cons b .nil))) cty res idx) :=
  rfl

theorem notation_method (p : Pos) (col : Int) (mp : Pos) (mcol : Int) (o : Expr) (f : String)
    (fp : Pos) (oty : Option Ty) (mi : Int) (args : ExprList) (cty cty' : Option Ty)
    (res res' : String) (idx idx' : Int) :
    desugar (.call p col (.member mp mcol o f fp oty mi) args cty res idx)
      = desugar (.call p col (.ident fp f) (.cons o args) cty' res' idx') := rfl

theorem notation_group (p : Pos) (e : Expr) : desugar (.group p e) = desugar e := rfl

/-- Everything downstream of `Desugar` (type checking, compilation, evaluation: any function `F`
of the desugared tree) cannot tell two trees with the same desugaring apart: same type, same
value, same failure. -/
theorem same_downstream {α : Type} (F : Expr → α) {e₁ e₂ : Expr} (h : desugar e₁ = desugar e₂) :
    F (desugar e₁) = F (desugar e₂) := by rw [h]

/-- Instance: the type checker on `x op y` and on `op(x, y)`. -/
theorem same_type_binary (env : TEnv) (ctr : Nat) (p : Pos) (name : String) (np : Pos) (fx : Nat)
    (l r : Expr) :
    check env ctr (desugar (.binary p name np fx l r))
      = check env ctr (desugar (.call p np.col (.ident np name) (.cons l (.cons r .nil)) none "" (-1))) :=
  same_downstream (check env ctr) (notation_binary p name np fx l r none "" (-1))

/-! ## only core forms remain -/

/-- After desugaring a tree contains only core forms (no `Unary`, `Binary`, `Ternary`, `Group`).
No hypothesis is needed for the total function … -/
theorem core (e : Expr) : (desugar e).isCore = true := desugar_isCore e

/-- … and whenever Go's `Desugar` returns (does not panic) its result is core. -/
theorem core_go {e e' : Expr} (h : desugarGo e = some e') : e'.isCore = true := by
  unfold desugarGo at h
  split at h
  · cases h; exact desugar_isCore e
  · cases h

/-- non-vacuity of `core_go` -/
example : desugarGo (.group Pos.zero (.ident Pos.zero "x")) = some (.ident Pos.zero "x") := by
  simp [desugarGo, Expr.ternariesOk, desugar]

/-- `desugarGo` fails exactly on a ternary that is not named `?` (unreachable from the parser,
which names the node after the lexeme of the `?` token). -/
theorem go_defined_iff (e : Expr) : (desugarGo e).isSome = e.ternariesOk := by
  unfold desugarGo; split <;> simp_all

/-! ## what `desugar` does to a core tree -/

/-- On a core tree without method-call syntax `desugar` rebuilds every node and erases the
checker attachments (`Expr.eraseAtt`: `Type`, `VarType`, `ObjType`, `CalleeType` := nil,
`Resolved` := "", `Index` := -1); nothing else changes. -/
theorem core_fixed {e : Expr} (hc : e.isCore = true) (hm : e.noMemberCallee = true) :
    desugar e = e.eraseAtt :=
  desugar_core_fixed_all.1 e hc hm

/-- non-vacuity: `f(x)[i]` with attachments -/
example :
    let e : Expr := .subscript Pos.zero 0
      (.call Pos.zero 0 (.ident Pos.zero "f") (.cons (.ident Pos.zero "x") .nil) (some .num) "f" 3)
      (.ident Pos.zero "i") (some .str)
    e.isCore = true ∧ e.noMemberCallee = true ∧ desugar e ≠ e := by
  simp [Expr.isCore, isCoreList, Expr.noMemberCallee, noMemberCalleeList, Expr.isMember, desugar,
    desugarList]

/-- `noMemberCallee` cannot be dropped: a CORE call whose callee is a bare `Member` is rewritten
again (the method-call rule), so core trees are not fixed points of `desugar` in general. -/
theorem core_method_rewritten :
    let e : Expr := .call Pos.zero 0 (.member Pos.zero 0 (.ident Pos.zero "o") "f" Pos.zero none (-1))
      (.cons (.ident Pos.zero "x") .nil) none "" (-1)
    e.isCore = true ∧ e.eraseAtt = e ∧
    desugar e = .call Pos.zero 0 (.ident Pos.zero "f")
      (.cons (.ident Pos.zero "o") (.cons (.ident Pos.zero "x") .nil)) none "" (-1) := by
  simp [Expr.isCore, isCoreList, Expr.eraseAtt, eraseAttList, desugar, desugarList]

/-- The output of `desugar` carries no attachments. -/
theorem output_no_attachments (e : Expr) : (desugar e).eraseAtt = desugar e :=
  eraseAtt_desugar_all.1 e

/-! ## idempotence, and finding D18 -/

/-- The tree of `(o.f)(x)`: a call whose callee is a `Group` around a `Member`. -/
def d18 : Expr :=
  .call Pos.zero 0
    (.group Pos.zero (.member Pos.zero 0 (.ident Pos.zero "o") "f" Pos.zero none (-1)))
    (.cons (.ident Pos.zero "x") .nil) none "" (-1)

/-- **D18**: `Desugar` is NOT idempotent.  `(o.f)(x)` desugars to the core tree "call of the
member node `o.f` with argument `x`" (the group is dropped, the method-call rule is not applied
because the callee was a `Group`); desugaring that tree again applies the method-call rule and
yields `f(o, x)`.  Both steps succeed in Go (`desugarGo` is defined on both). -/
theorem not_idempotent :
    desugar d18 = .call Pos.zero 0 (.member Pos.zero 0 (.ident Pos.zero "o") "f" Pos.zero none (-1))
        (.cons (.ident Pos.zero "x") .nil) none "" (-1) ∧
    desugar (desugar d18) = .call Pos.zero 0 (.ident Pos.zero "f")
        (.cons (.ident Pos.zero "o") (.cons (.ident Pos.zero "x") .nil)) none "" (-1) ∧
    desugar (desugar d18) ≠ desugar d18 ∧
    (desugarGo d18).isSome = true ∧ (desugarGo (desugar d18)).isSome = true := by
  simp [d18, desugar, desugarList, desugarGo, Expr.ternariesOk, ternariesOkList]

/-- Idempotence under the weakest structural hypothesis excluding D18: no call node whose callee
is a `Group` (possibly nested `Group`s) around a `Member`.

Full statement (FALSE, see `not_idempotent`): `∀ e, desugar (desugar e) = desugar e`. -/
theorem idem_partial {e : Expr} (h : e.noGroupMemberCallee = true) :
    desugar (desugar e) = desugar e :=
  desugar_idem_of_noGroupMemberCallee h

/-- non-vacuity: `(a + b).f(c ? d : e)` satisfies the hypothesis (method call on a group is fine,
only a group AS CALLEE around a member is excluded). -/
example :
    (Expr.call Pos.zero 0
      (.member Pos.zero 0
        (.group Pos.zero (.binary Pos.zero "+" Pos.zero fixInfixL (.ident Pos.zero "a") (.ident Pos.zero "b")))
        "f" Pos.zero none (-1))
      (.cons (.ternary Pos.zero "?" Pos.zero (.ident Pos.zero "c") (.ident Pos.zero "d") (.ident Pos.zero "e")) .nil)
      none "" (-1)).noGroupMemberCallee = true := by
  simp [Expr.noGroupMemberCallee, noGroupMemberCalleeList, Expr.isGroupedMember]

/-- The hypothesis is exactly what is needed at the top node: the excluded shape is the only way a
callee that is not a `Member` can desugar to a `Member`. -/
theorem desugars_to_member_iff (c : Expr) :
    (desugar c).isMember = c.stripGroups.isMember := desugar_isMember c

/-- The hypothesis of `idem_partial` fails on the D18 witness. -/
example : d18.noGroupMemberCallee = false := by
  simp [d18, Expr.noGroupMemberCallee, Expr.isGroupedMember, Expr.stripGroups, Expr.isMember]

/-- Under the same hypothesis the output contains no method-call syntax at all. -/
theorem output_no_member_callee {e : Expr} (h : e.noGroupMemberCallee = true) :
    (desugar e).noMemberCallee = true :=
  desugar_noMemberCallee_all.1 e h

end Yae.C10

#print axioms Yae.C10.shape_binary
#print axioms Yae.C10.shape_unary
#print axioms Yae.C10.shape_ternary
#print axioms Yae.C10.shape_method
#print axioms Yae.C10.shape_group
#print axioms Yae.C10.shape_call
#print axioms Yae.C10.args_order
#print axioms Yae.C10.pairs_order
#print axioms Yae.C10.fields_order
#print axioms Yae.C10.notation_binary
#print axioms Yae.C10.notation_unary
#print axioms Yae.C10.notation_ternary
#print axioms Yae.C10.notation_method
#print axioms Yae.C10.notation_group
#print axioms Yae.C10.same_downstream
#print axioms Yae.C10.same_type_binary
#print axioms Yae.C10.core
#print axioms Yae.C10.core_go
#print axioms Yae.C10.go_defined_iff
#print axioms Yae.C10.core_fixed
#print axioms Yae.C10.core_method_rewritten
#print axioms Yae.C10.output_no_attachments
#print axioms Yae.C10.not_idempotent
#print axioms Yae.C10.idem_partial
#print axioms Yae.C10.desugars_to_member_iff
#print axioms Yae.C10.output_no_member_callee
