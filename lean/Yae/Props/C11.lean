/-
  C11.  "Every bytecode program the compiler emits (including the bodies of deferred
  arguments) decodes completely into known instructions with in-range constant, size and
  argument-count operands of the right kind; every jump targets a later instruction boundary
  inside the code; the evaluation stack depth at each instruction is the same on every path,
  never negative, and exactly one at the final return.  Consequently execution of an
  expression needs at most one step per emitted instruction and cannot underflow the stack or
  loop."

  The first sentence is what the executable verifier `Yae.VmVerify.verify` checks (theorem
  `verify_decodes` says so declaratively); it is run on the bytes the Go compiler emits by the
  `vm` correspondence stream.  The "consequently" clause is `verify_sound`.

  Not proved here: that `compile` only emits code the verifier accepts (`compile_verified`).
  It is false for unchecked trees (`compile [] (.list p .nil none)` yields `NEW_LIST` with a
  name constant, which `verify` rejects), so it needs the checker's invariants as hypotheses;
  for the programs of the `vm` stream it is established by running `verify` on the Go
  compiler's bytes (which equal the model compiler's bytes).
-/
import Yae.Proofs.VmVerify
namespace Yae.C11
open Yae Yae.Vm Yae.VmVerify

/-- **Soundness of the verifier** (the "consequently" clause).  If the main code and every
deferred body in the pool verify, then for every environment, every fuel and every initial
log, running the code from offset 0 on the empty stack never fails with a stack underflow, an
undecodable / truncated instruction, a constant of the wrong kind, an instruction form the
machine does not know, or a deferred argument where a value is expected (or conversely); and
it does not run out of fuel when the fuel is at least the number of emitted bytes (main code
plus all deferred bodies; every instruction is at least one byte). -/
theorem verify_sound {code : Code} {pool : Pool} (h : VmVerify.verify code pool = true)
    (env : REnv) (fuel : Nat) (log : List Event) (f : Fail)
    (hf : (run fuel env pool code 0 [] log).1 = .error f) :
    f ≠ .stuck "stack-underflow" ∧ f ≠ .stuck "bad-opcode-or-truncated" ∧
    f ≠ .stuck "const-kind" ∧ f ≠ .stuck "decode" ∧
    f ≠ .stuck "cast:thunk-as-value" ∧ f ≠ .stuck "cast:value-as-thunk" ∧
    (totalCodeSize code pool ≤ fuel → f ≠ .fuel) := by
  have hg := verify_good h env fuel log f hf
  refine ⟨?_, ?_, ?_, ?_, ?_, ?_, ?_⟩
  all_goals first
    | (rintro rfl; exact hg (by simp [Bad, BadStuck]))
    | (rintro hfuel rfl; exact hg (by simpa [Bad] using hfuel))

/-- Step bound per unit: one run of the deferred body stored at constant `i` needs fuel (=
instructions of that unit, plus what nested forcings inside it need) at most its own size plus
the sizes of the deferred bodies stored *before* it -- the only ones it can force.  With
`verify_sound` (main code: its size plus all bodies) this bounds every unit run by the code
size of the unit plus that of the units below it; the machine hands a nested run the fuel the
caller has left, so no bound independent of nesting exists for `run`'s fuel parameter, and the
number of forcings is decided by the host function. -/
theorem verify_sound_thunk {code : Code} {pool : Pool} (h : VmVerify.verify code pool = true)
    (env : REnv) {i : Nat} {body : Code} {ret : Ty} (hb : pool[i]? = some (.thunk body ret))
    (fuel : Nat) (log : List Event) (f : Fail)
    (hf : (run fuel env pool body 0 [] log).1 = .error f) :
    f ≠ .stuck "stack-underflow" ∧ f ≠ .stuck "bad-opcode-or-truncated" ∧
    f ≠ .stuck "const-kind" ∧ f ≠ .stuck "decode" ∧
    f ≠ .stuck "cast:thunk-as-value" ∧ f ≠ .stuck "cast:value-as-thunk" ∧
    (body.size + tsz pool i ≤ fuel → f ≠ .fuel) := by
  have hg := verify_good_thunk h env hb fuel log f hf
  refine ⟨?_, ?_, ?_, ?_, ?_, ?_, ?_⟩
  all_goals first
    | (rintro rfl; exact hg (by simp [Bad, BadStuck]))
    | (rintro hfuel rfl; exact hg (by simpa [Bad] using hfuel))

/-- `runVm` (the entry point the `vm` stream compares with the Go machine) passes enough fuel. -/
theorem runVm_sound {code : Code} {pool : Pool} (h : VmVerify.verify code pool = true)
    (env : REnv) (f : Fail) (hf : (runVm env code pool).1 = .error f) :
    f ≠ .fuel ∧ f ≠ .stuck "stack-underflow" ∧ f ≠ .stuck "bad-opcode-or-truncated" ∧
    f ≠ .stuck "const-kind" ∧ f ≠ .stuck "decode" ∧
    f ≠ .stuck "cast:thunk-as-value" ∧ f ≠ .stuck "cast:value-as-thunk" := by
  have hs := verify_sound h env (1000 * (totalCodeSize code pool + 1)) [] f (by simpa [runVm] using hf)
  refine ⟨hs.2.2.2.2.2.2 (by omega), hs.1, hs.2.1, hs.2.2.1, hs.2.2.2.1, hs.2.2.2.2.1, hs.2.2.2.2.2.1⟩

/-- **What the verifier checks** (the first sentence of C11).  If `verify code pool` holds then
the main code, with respect to the whole pool, and the body of every deferred argument, with
respect to the constants allocated before it, is well formed: it decodes completely from
offset 0 to its end into instructions `is` (offset, instruction) ending with `RETURN`, and
there is a labelling `d` of the offsets by abstract stacks (the kind of every slot; its
length is the depth), empty at offset 0, such that for every instruction
* its operands are in range and of the right kind (`OperandsOK`, i.e. `effect` is defined),
* it pops no more than the depth (and only slots of the kind it expects: `stepA`),
* a jump goes to a strictly later offset that is one of the decoded instruction boundaries
  inside the code, and the stack there is the one after the jump instruction,
* the next instruction (unless this is `RETURN` or `JUMP`) is labelled with the stack after
  this one -- so the depth at an instruction is the same on every path,
* at `RETURN` the stack is exactly one value, and `RETURN` is the last instruction. -/
theorem verify_decodes {code : Code} {pool : Pool} (h : VmVerify.verify code pool = true) :
    WellFormed pool code ∧
    ∀ i body ret, pool[i]? = some (.thunk body ret) → WellFormed (pool.extract 0 i) body :=
  ⟨verifyUnit_wf (verify_iff.mp h).1, fun i body ret hb => verifyUnit_wf ((verify_iff.mp h).2 i body ret hb)⟩

/-- `WellFormed` spelled out (the statement `verify_decodes` gives for every unit). -/
theorem wellFormed_explicit {pool : Pool} {code : Code} (h : WellFormed pool code) :
    ∃ (is : List (Nat × Instr)) (d : Nat → AStack),
      decodeAll code = some is ∧ d 0 = [] ∧ (∃ o, is.getLast? = some (o, .simple .RETURN)) ∧
      ∀ o ins, (o, ins) ∈ is →
        ∃ next σ' pops pushes, decodeAt code o = some (ins, next) ∧ o < next ∧ next ≤ code.size ∧
          OperandsOK pool ins ∧ effect pool ins = some (pops, pushes) ∧
          stepA pool ins (d o) = some σ' ∧
          pops ≤ (d o).length ∧ σ'.length = (d o).length - pops + pushes ∧
          (ins = .simple .RETURN → d o = [false] ∧ next = code.size) ∧
          (∀ op t, ins = .jump op t → o < t ∧ t < code.size ∧ t ∈ is.map (·.1) ∧ d t = σ') ∧
          (ins ≠ .simple .RETURN → (∀ t, ins ≠ .jump .JUMP t) → next ∈ is.map (·.1) ∧ d next = σ') :=
  h.explicit

/-! ### non-vacuity: concrete programs the verifier accepts -/

/-- `true ? "a" : "b"`: `CONST 0; IF_TRUE 12; CONST 1; JUMP 15; CONST 2; RETURN` -/
def exCondCode : Code := #[2,0,0, 54,0,12, 2,0,1, 56,0,15, 2,0,2, 1]
def exCondPool : Pool := #[.val (.bool true), .val (.str "a"), .val (.str "b")]

def exLazy : FunDecl :=
  { ty := .fn "lz" (.cons .str (.cons .str .nil)) .str, ref := .host "lz" (.force [1, 0, 1]), isLazy := true }
/-- `lz("x", "y")` for a lazy host function: `CONST 1; CONST 3; CALL_BY_NEED 4 2; RETURN`,
the two deferred bodies being `CONST 0; RETURN` and `CONST 2; RETURN` -/
def exLazyCode : Code := #[2,0,1, 2,0,3, 51,0,4,2, 1]
def exLazyPool : Pool :=
  #[.val (.str "x"), .thunk #[2,0,0,1] .str, .val (.str "y"), .thunk #[2,0,2,1] .str, .fn exLazy]

example : VmVerify.verify exCondCode exCondPool = true := by decide
example : VmVerify.verify exLazyCode exLazyPool = true := by decide
example : exLazyPool[3]? = some (.thunk #[2,0,2,1] .str) := rfl
/-- `verify_decodes` / `wellFormed_explicit` apply to them -/
example : WellFormed exCondPool exCondCode := (verify_decodes (code := exCondCode) (by decide)).1
example : WellFormed (exLazyPool.extract 0 3) #[2,0,2,1] :=
  (verify_decodes (code := exLazyCode) (pool := exLazyPool) (by decide)).2 3 _ _ rfl
/-- `verify_sound` / `runVm_sound` apply to them: e.g. the lazy call cannot run out of fuel -/
example (env : REnv) : (runVm env exLazyCode exLazyPool).1 ≠ .error .fuel :=
  fun h => (runVm_sound (code := exLazyCode) (pool := exLazyPool) (by decide) env .fuel h).1 rfl
/-- a deferred argument left on the stack at `RETURN` is rejected (a depth-only check would
accept it, and the machine would fail with `cast:thunk-as-value`) -/
example : VmVerify.verify #[2,0,1, 1] exLazyPool = false := by decide
/-- a deferred body that forces itself is rejected (a check of every body against the whole
pool would accept it; the machine would recurse until the fuel is gone) -/
def exSelfPool : Pool := #[.thunk #[2,0,0, 51,0,1,1, 1] .str, .fn exLazy]
example : VmVerify.verify #[2,0,0, 51,0,1,1, 1] exSelfPool = false := by decide

end Yae.C11

#print axioms Yae.C11.verify_sound
#print axioms Yae.C11.verify_sound_thunk
#print axioms Yae.C11.runVm_sound
#print axioms Yae.C11.verify_decodes
#print axioms Yae.C11.wellFormed_explicit
