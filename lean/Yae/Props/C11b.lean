/-
  C11, first sentence, for the compiler: "Every bytecode program the compiler emits (including
  the bodies of deferred arguments) decodes completely into known instructions with in-range
  constant, size and argument-count operands of the right kind; every jump targets a later
  instruction boundary inside the code; the evaluation stack depth at each instruction is the
  same on every path, never negative, and exactly one at the final return."

  `Yae/Props/C11.lean` states what the executable verifier `VmVerify.verify` checks
  (`verify_decodes`) and what follows for the machine (`verify_sound`).  Here: the model
  compiler's output passes the verifier (`compile_verified_partial`), so both apply to every
  compiled program (`compiled_decodes`, `compiled_runs_safely`).

  Hypotheses.  `WellAnnotated funs e` (`Yae.C03`, = `wa`: what the simulation theorem needs
  from `types.Check`) and `LiteralsTyped e`: a list / map literal is annotated with a list / map
  type.  `wa` only asks a non-empty literal to carry *some* type, which is not enough
  (`not_verified_without_literal_types`: `[true]` annotated `str` is `WellAnnotated`, compiles,
  and is rejected, as `NEW_LIST` refers to a constant that is not a list type); the checker
  attaches `list[el]` / `map[k,v]`: the tree `check` returns is `LiteralsTyped`
  (`checked_literalsTyped`), so for checker output `WellAnnotated` is the only hypothesis, as in
  C03 (`compile_verified_checked`).  Without `wa` the
  statement fails as well (`not_verified_unannotated`, the example of the earlier worker).
  Hence the name `_partial`; the statement without `LiteralsTyped` is false:

      theorem compile_verified (hc : compile funs e = .ok (code, pool))
          (hw : WellAnnotated funs e) : VmVerify.verify code pool = true      -- FALSE

  Proof: `Yae/Proofs/VmCompileVerified.lean`.
-/
import Yae.Proofs.VmCompileVerified
import Yae.Proofs.VmCheckLit
import Yae.Props.C03
import Yae.Props.C11
import Yae.Spec.Typing
namespace Yae.C11
open Yae Yae.Vm Yae.VmVerify Yae.VmSim Yae.C03

/-- list and map literals carry a list / map type (decidable, syntactic) -/
def LiteralsTyped (e : Expr) : Prop := VmCV.lit e = true

instance (e : Expr) : Decidable (LiteralsTyped e) := by
  unfold LiteralsTyped; infer_instance

/-- **`compile_verified`.**  What `compile` emits for an annotated tree is accepted by the
verifier: main code against the whole pool, every deferred body against the constants allocated
before it. -/
theorem compile_verified_partial {funs : List FunDecl} {e : Expr} {code : Code} {pool : Pool}
    (hc : compile funs e = .ok (code, pool)) (hw : WellAnnotated funs e) (hl : LiteralsTyped e) :
    VmVerify.verify code pool = true :=
  VmCV.compile_verified hc hw hl

/-- the tree the checker returns has its list / map literals typed -/
theorem checked_literalsTyped {Γ : TEnv} {c c' : Nat} {e e' : Expr} {T : Ty}
    (hk : check Γ c e = .ok (T, e', c')) : LiteralsTyped e' :=
  VmCV.check_lit Γ e c T e' c' hk

/-- `compile_verified` for checker output: the hypotheses of the simulation theorem C03 -/
theorem compile_verified_checked {Γ : TEnv} {c c' : Nat} {e e' : Expr} {T : Ty}
    {funs : List FunDecl} {code : Code} {pool : Pool} (hk : check Γ c e = .ok (T, e', c'))
    (hc : compile funs e' = .ok (code, pool)) (hw : WellAnnotated funs e') :
    VmVerify.verify code pool = true :=
  compile_verified_partial hc hw (checked_literalsTyped hk)

/-- the first sentence of C11 for compiled programs (see `C11.wellFormed_explicit` for
`WellFormed` spelled out) -/
theorem compiled_decodes {funs : List FunDecl} {e : Expr} {code : Code} {pool : Pool}
    (hc : compile funs e = .ok (code, pool)) (hw : WellAnnotated funs e) (hl : LiteralsTyped e) :
    WellFormed pool code ∧
    ∀ i body ret, pool[i]? = some (.thunk body ret) → WellFormed (pool.extract 0 i) body :=
  verify_decodes (compile_verified_partial hc hw hl)

/-- the fuel `runVm` passes covers every emitted byte -/
theorem totalCodeSize_le_runVm_fuel (code : Code) (pool : Pool) :
    totalCodeSize code pool ≤ 1000 * (totalCodeSize code pool + 1) := by omega

/-- **The machine runs compiler output safely**: `runVm` on a compiled program never fails
with a stack underflow, an undecodable or truncated instruction, a constant of the wrong kind,
an unknown instruction form, a deferred argument where a value is expected (or conversely), and
never runs out of fuel. -/
theorem compiled_runs_safely {funs : List FunDecl} {e : Expr} {code : Code} {pool : Pool}
    (hc : compile funs e = .ok (code, pool)) (hw : WellAnnotated funs e) (hl : LiteralsTyped e)
    (env : REnv) (f : Fail) (hf : (runVm env code pool).1 = .error f) :
    f ≠ .fuel ∧ f ≠ .stuck "stack-underflow" ∧ f ≠ .stuck "bad-opcode-or-truncated" ∧
    f ≠ .stuck "const-kind" ∧ f ≠ .stuck "decode" ∧
    f ≠ .stuck "cast:thunk-as-value" ∧ f ≠ .stuck "cast:value-as-thunk" :=
  runVm_sound (compile_verified_partial hc hw hl) env f hf

/-- the same for `run` with any fuel covering the emitted bytes, from any log -/
theorem compiled_run_sound {funs : List FunDecl} {e : Expr} {code : Code} {pool : Pool}
    (hc : compile funs e = .ok (code, pool)) (hw : WellAnnotated funs e) (hl : LiteralsTyped e)
    (env : REnv) (fuel : Nat) (log : List Event) (f : Fail)
    (hf : (run fuel env pool code 0 [] log).1 = .error f) :
    f ≠ .stuck "stack-underflow" ∧ f ≠ .stuck "bad-opcode-or-truncated" ∧
    f ≠ .stuck "const-kind" ∧ f ≠ .stuck "decode" ∧
    f ≠ .stuck "cast:thunk-as-value" ∧ f ≠ .stuck "cast:value-as-thunk" ∧
    (totalCodeSize code pool ≤ fuel → f ≠ .fuel) :=
  verify_sound (compile_verified_partial hc hw hl) env fuel log f hf

/-! ### non-vacuity and the counterexamples -/

/-- a lazy host function registered after the built-ins -/
def exLz : FunDecl :=
  { ty := .fn "lz" (.cons .bool (.cons (.list .str) .nil)) .str,
    ref := .host "lz" (.force [1, 0]), isLazy := true }
def exFuns : List FunDecl := builtinFuns ++ [exLz]

/-- `lz(x && y, ["s"])`: two deferred arguments, the first with jumps, the second with a list
literal; main code `CONST 3; CONST 6; CALL_BY_NEED 7 2; RETURN` -/
def exE : Expr :=
  .call Pos.unknown 0 (.ident Pos.unknown "lz")
   (.cons (.call Pos.unknown 0 (.ident Pos.unknown "&&")
      (.cons (.ident Pos.unknown "x") (.cons (.ident Pos.unknown "y") .nil)) none "λ && (bool, bool)" (-1))
    (.cons (.list Pos.unknown (.cons (.str Pos.unknown "s") .nil) (some (.list .str))) .nil))
   none "λ lz (bool, list[str])" (-1)

set_option maxRecDepth 100000 in
theorem exRes1 : resolveStatic exFuns "λ lz (bool, list[str])" (-1) = some exLz := by rfl
set_option maxRecDepth 100000 in
theorem exRes2 : resolveStatic exFuns "λ && (bool, bool)" (-1) =
    some { ty := .fn "&&" (.cons .bool (.cons .bool .nil)) .bool, ref := .builtin 30, isLazy := true } := by
  rfl
theorem exB30 : Option.map (fun x => x.id) builtins[30]? = some BId.LOGIC_AND_BOOL_BOOL := by rfl
theorem exNe1 : ("λ && (bool, bool)" == "") = false := by decide
theorem exNe2 : ("λ lz (bool, list[str])" == "") = false := by decide

theorem exE_compiles : ∃ code pool, compile exFuns exE = .ok (code, pool) := by
  simp only [compile, exE, compileE, compileList, compileThunks, compileCond, Expr.depth, depthList,
    exRes1, exRes2, exNe1, exNe2, exB30, Bool.false_eq_true, ↓reduceIte, exLz, Option.map_none,
    Option.getD_none, Option.bind_none, Nat.reduceAdd, Nat.max_def, Nat.reduceLeDiff, ExprList.length]
  exact ⟨_, _, rfl⟩

set_option maxRecDepth 100000 in
theorem exE_annotated : WellAnnotated exFuns exE := by
  unfold WellAnnotated; decide

theorem exE_literals : LiteralsTyped exE := by
  unfold LiteralsTyped; decide

/-- the hypotheses of `compile_verified_partial`, `compiled_decodes`, `compiled_runs_safely`,
`compiled_run_sound` hold together for `exE` -/
example : (∃ code pool, compile exFuns exE = .ok (code, pool)) ∧ WellAnnotated exFuns exE ∧
    LiteralsTyped exE := ⟨exE_compiles, exE_annotated, exE_literals⟩

/-- and so the conclusions: whatever `compile` returned for `exE` verifies, and `runVm` on it
does not run out of fuel -/
example : ∃ code pool, compile exFuns exE = .ok (code, pool) ∧ VmVerify.verify code pool = true ∧
    ∀ env, (runVm env code pool).1 ≠ .error .fuel := by
  obtain ⟨code, pool, hc⟩ := exE_compiles
  exact ⟨code, pool, hc, compile_verified_partial hc exE_annotated exE_literals,
    fun env h => (compiled_runs_safely hc exE_annotated exE_literals env .fuel h).1 rfl⟩

/-- `[x, true]` before and after the checker -/
def exRaw : Expr :=
  .list Pos.unknown (.cons (.ident Pos.unknown "x") (.cons (.bool Pos.unknown true) .nil)) none
def exChecked : Expr :=
  .list Pos.unknown (.cons (.ident Pos.unknown "x") (.cons (.bool Pos.unknown true) .nil))
    (some (.list .bool))

/-- the hypotheses of `checked_literalsTyped` and `compile_verified_checked` hold together -/
example : check (builtinEnv [("x", .bool)]) 0 exRaw = .ok (.list .bool, exChecked, 0) ∧
    (∃ code pool, compile [] exChecked = .ok (code, pool)) ∧ WellAnnotated [] exChecked := by
  refine ⟨rfl, ?_, by unfold WellAnnotated; decide⟩
  simp only [compile, exChecked, compileE, compileList, Expr.depth, depthList]
  exact ⟨_, _, rfl⟩

/-- `[true]` annotated with `str` -/
def exBadLit : Expr :=
  .list Pos.unknown (.cons (.bool Pos.unknown true) .nil) (some .str)

/-- **`LiteralsTyped` is needed**: a `WellAnnotated` tree whose output the verifier rejects
(`NEW_LIST` with a constant that is not a list type) -/
theorem not_verified_without_literal_types :
    WellAnnotated [] exBadLit ∧ ¬ LiteralsTyped exBadLit ∧
    ∃ code pool, compile [] exBadLit = .ok (code, pool) ∧ VmVerify.verify code pool = false := by
  refine ⟨by unfold WellAnnotated; decide, by unfold LiteralsTyped; decide, ?_⟩
  simp only [compile, exBadLit, compileE, compileList, Expr.depth, depthList]
  exact ⟨_, _, rfl, by decide⟩

/-- **`WellAnnotated` is needed**: the empty list literal the checker has not seen -/
theorem not_verified_unannotated :
    ¬ WellAnnotated [] (.list Pos.unknown .nil none) ∧
    ∃ code pool, compile [] (.list Pos.unknown .nil none) = .ok (code, pool) ∧
      VmVerify.verify code pool = false := by
  refine ⟨by unfold WellAnnotated; decide, ?_⟩
  simp only [compile, compileE, compileList, Expr.depth, depthList]
  exact ⟨_, _, rfl, by decide⟩

end Yae.C11

#print axioms Yae.C11.compile_verified_partial
#print axioms Yae.C11.checked_literalsTyped
#print axioms Yae.C11.compile_verified_checked
#print axioms Yae.C11.compiled_decodes
#print axioms Yae.C11.compiled_runs_safely
#print axioms Yae.C11.compiled_run_sound
#print axioms Yae.C11.totalCodeSize_le_runVm_fuel
#print axioms Yae.C11.exE_compiles
#print axioms Yae.C11.not_verified_without_literal_types
#print axioms Yae.C11.not_verified_unannotated
