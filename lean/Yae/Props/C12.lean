/-
  C12 (the part a model can carry). "… terminate and report failure through their error result …
  Compile time grows at most polynomially with the length of the source …"

  In the model every stage is a total function into value-or-error (Lean accepts only
  terminating definitions; no `partial`).  Totality is bought with FUEL arguments, so what has
  to be shown is that the fuel handed out by the top-level functions is never the reason for a
  failure: the outcome `.fuel` (which stands for "the Go code does not terminate") is
  unreachable.  This file collects those statements for the lexer and the parser and points to
  the ones proved elsewhere.

  * lexer: `lex_no_fuel`, `lex_steps`, `lex_fuel_mono`, `lex_rule_attempts`
  * parser: `parse_no_fuel_partial`, `parseWith_no_fuel`
  * proved elsewhere (not re-proved here):
      unifier fuel suffices            `Yae.C17.unify_fuel_sufficient`   (Yae/Props/C17.lean)
      evaluator fuel = depth of tree   `Yae.C02.progress`                (Yae/Props/C02.lean)
      VM: steps ≤ code size            `Yae.C11.verify_sound`            (Yae/Props/C11.lean)

  Polynomial bound for the lexer: at most `s.length + 1` rounds (`lex_steps`); per round at most
  `ops.length + 22` rule attempts (`lex_rule_attempts`), each a prefix test or one of the ten
  single-pass scanners of `Yae.Model.Lexer` over the remaining input (structural recursions on
  the input list, the two `reStar` loops with fuel = length of the rest).  So the work is
  `O(|s|² · (|ops| + 22))`; only the round count and the attempt count are stated as theorems,
  the model has no cost semantics.
  Parser: the DEPTH of the call chain is linear in the number of tokens (`parseWith_no_fuel`:
  `4 * #tokens + 1` suffices).  The amount of work is not bounded here; the one-pass list-or-map
  rule of the current model has no backtracking (finding D14 concerned the earlier two-pass
  `tryParse` version).
-/
import Yae.Proofs.LexRules
import Yae.Proofs.ParseFuel
import Yae.Gen.Guards
namespace Yae.C12
open Yae

/-! ## lexer -/

/-- With no operator of empty kind the lexer terminates with tokens or the syntax error: the
fuel `input.length + 1` is never exhausted. -/
theorem lex_no_fuel {ops : List Operator} (hops : ∀ o ∈ ops, o.kind ≠ "") (s : List Char) :
    lex ops s ≠ .error .fuel :=
  lexLoop_no_fuel (newLexicon_progress hops) _ _ _ (Nat.lt_succ_self _)

example : ∀ o ∈ [(⟨"+", 7, fixInfixL⟩ : Operator), ⟨"not", 9, fixPrefix⟩], o.kind ≠ "" := by decide

/-- The hypothesis is needed (Go: `strings.HasPrefix(s, "")` matches without consuming; the loop
never ends). -/
example : lex [⟨"", 7, fixInfixL⟩] "a".toList = .error .fuel := by decide +kernel

/-- Number of rounds of the loop: a successful run makes exactly one round per token plus the
final round that finds the end of input (`ts.length + 1` is the fuel actually needed), and there
are at most as many tokens as runes: each round consumes at least one. -/
theorem lex_steps {ops : List Operator} {s : List Char} {ts : List Token}
    (h : lex ops s = .ok ts) :
    ts.length ≤ s.length ∧ lexLoop (newLexicon ops) (ts.length + 1) s Pos.zero = .ok ts :=
  ⟨(lex_lexed h).length_le, lexLoop_fuel_exact h⟩

example : lex [] "a b".toList
    = .ok [⟨"<sym>", "a", ⟨0, 1, 0, 0⟩⟩, ⟨"<sym>", "b", ⟨2, 3, 2, 0⟩⟩] := by decide +kernel

/-- Any outcome other than `.fuel` is independent of the fuel once it is reached. -/
theorem lex_fuel_mono {rules : List Rule} {f f' : Nat} {cs : List Char} {p : Pos}
    {r : Except LexErr (List Token)} (h : lexLoop rules f cs p = r) (hr : r ≠ .error .fuel)
    (hf : f ≤ f') : lexLoop rules f' cs p = r :=
  lexLoop_fuel_mono h hr hf

example : lexLoop (newLexicon []) 2 "a".toList Pos.zero = .ok [⟨"<sym>", "a", ⟨0, 1, 0, 0⟩⟩] := by
  decide +kernel

/-- Rule attempts per round: the lexicon has `ops.length + 22` rules and `firstMatch` tries each
at most once. -/
theorem lex_rule_attempts (ops : List Operator) : (newLexicon ops).length = ops.length + 22 :=
  newLexicon_length ops

/-! ## parser -/

/-- `parse` never runs out of fuel, for every operator table without an operator of kind
`<END-OF-FILE>`, every token list and every `strtotime` table.

Full statement (no hypothesis on `ops`) is FALSE in the model and in Go: a PREFIX operator of
kind `<END-OF-FILE>` is applied again and again at the end of the input, because eating the
end-of-file token does not advance (Go does not terminate): `parse_fuel_witness` below. -/
theorem parse_no_fuel_partial {ops : List Operator} (hops : ∀ o ∈ ops, o.kind ≠ "<END-OF-FILE>")
    (times : List (String × Int)) (toks : List Token) :
    parse ops times toks ≠ .error .fuel :=
  parseWith_no_fuel hops times toks (by unfold parseFuel; omega)

example : ∀ o ∈ [(⟨"+", 7, fixInfixL⟩ : Operator), ⟨"not", 9, fixPrefix⟩],
    o.kind ≠ "<END-OF-FILE>" := by decide

/-- the excluded table: with a PREFIX operator whose kind is the end-of-file marker the model runs
out of fuel on the empty input (Go: `expr` eats the end-of-file token, which does not advance the
cursor, finds the prefix rule and calls `expr` again: unbounded recursion).  A postfix or infix
operator of that kind does not loop: `pos.Range` refuses the position of the end-of-file token. -/
theorem parse_fuel_witness :
    (match parse [⟨"<END-OF-FILE>", 7, fixPrefix⟩] [] [] with
     | .error .fuel => true
     | _ => false) = true := by
  decide +kernel

/-- The depth of the parser's call chain is linear: any fuel `≥ 4 * #tokens + 1` will do
(`parseFuel` hands out `4 * #tokens + 32`). -/
theorem parseWith_no_fuel {ops : List Operator} (hops : ∀ o ∈ ops, o.kind ≠ "<END-OF-FILE>")
    (times : List (String × Int)) (toks : List Token) {fuel : Nat}
    (hf : 4 * toks.length + 1 ≤ fuel) : parseWith fuel ops times toks ≠ .error .fuel :=
  Yae.parseWith_no_fuel hops times toks hf

/-! ## containment of panics at the API boundary

Go reports every internal failure by `panic`; the API functions turn panics into their error
result with deferred recovers.  WHICH functions install a recover is regenerated from the source
on every run (`Gen.panicGuards`: go/ast scan of facade.go, conv/*.go, ext/sql.go, util/err.go) and
must equal `expectedGuards`.  The call structure of the four entry points (`apiStages`) is
hand-modelled from facade.go: for every internal stage an entry point runs, the guard that is in
scope while it runs, or `none`.  `contained_partial`: a stage without a guard in scope is one of
the three stages that are total functions in the model (so nothing can be raised there): the
top-level walk of `TypeEnvOf` / `ValEnvOf` (`Yae.typeEnvOf`, `Yae.valEnvOf` return `Except`; the Go
code tests kinds and nil-ness before every reflect call: findings D30, D31 were exactly such
unguarded panics and were repaired) and the report renderer (`Yae.Debug.render`: total, and see
`Yae.C19.render_shows`).  PARTIAL: the call structure is read off the source by hand, not
extracted; the run-time search for escaping panics is the `api` / `history` / `conv` / `debug`
streams (`api-panic`, `conv-panic`, `debug-panic`, `process-crash`). -/

/-- the guards the API layer installs (file, function, how) -/
def expectedGuards : List (String × String × String) := [
  ("conv/type.go", "typeOfRV", "defer:Recover"),
  ("conv/val.go", "valOfRV", "defer:Recover"),
  ("ext/sql.go", "CompileToSql/closure", "defer:literal"),
  ("facade.go", "Expr.Compile", "defer:backStrace"),
  ("facade.go", "Expr.backStrace", "helper:recover"),
  ("facade.go", "Expr.envCheck", "defer:backStrace"),
  ("facade.go", "Expr.makeCallable/closure", "defer:backStrace"),
  ("util/err.go", "Recover", "helper:recover")]

theorem guards_tie : Gen.panicGuards = expectedGuards := by decide

inductive Stage where
  | convTypeTop | convTypeField | convValTop | convValField
  | lex | parse | desugar | check | compile | envCheck | run | render
  deriving DecidableEq, Repr

/-- entry point ↦ the stages it runs, each with the guard in scope (function of `expectedGuards`) -/
def apiStages : List (String × List (Stage × Option String)) := [
  ("Expr.Compile", [
    (.convTypeTop, none), (.convTypeField, some "typeOfRV"),
    (.lex, some "Expr.Compile"), (.parse, some "Expr.Compile"), (.desugar, some "Expr.Compile"),
    (.check, some "Expr.Compile"), (.compile, some "Expr.Compile")]),
  ("Callable", [
    (.convValTop, some "Expr.makeCallable/closure"), (.convValField, some "valOfRV"),
    (.envCheck, some "Expr.envCheck"), (.run, some "Expr.makeCallable/closure")]),
  ("Eval", [
    (.convTypeTop, none), (.convTypeField, some "typeOfRV"),
    (.lex, some "Expr.Compile"), (.parse, some "Expr.Compile"), (.desugar, some "Expr.Compile"),
    (.check, some "Expr.Compile"), (.compile, some "Expr.Compile"),
    (.convValTop, none), (.convValField, some "valOfRV"),
    (.envCheck, some "Expr.envCheck"), (.run, some "Expr.makeCallable/closure")]),
  ("Debug", [
    (.convTypeTop, none), (.convTypeField, some "typeOfRV"),
    (.lex, some "Expr.Compile"), (.parse, some "Expr.Compile"), (.desugar, some "Expr.Compile"),
    (.check, some "Expr.Compile"), (.compile, some "Expr.Compile"),
    (.convValTop, none), (.convValField, some "valOfRV"),
    (.envCheck, some "Expr.envCheck"), (.run, some "Expr.makeCallable/closure"),
    (.render, none)])]

/-- the stages that are total functions in the model -/
def totalStages : List Stage := [.convTypeTop, .convValTop, .render]

/-- every stage an entry point runs is either covered by a guard that the code installs NOW
(`Gen.panicGuards`, regenerated), or is one of the stages that cannot raise -/
def stageCovered (st : Stage × Option String) : Bool :=
  match st.2 with
  | some g => (Gen.panicGuards.map (·.2.1)).contains g
  | none => totalStages.contains st.1

theorem contained_partial :
    (apiStages.all fun e => e.2.all stageCovered) = true := by decide

/-- … and the two helpers through which the guards recover really call `recover()` -/
theorem helpers_recover :
    ("facade.go", "Expr.backStrace", "helper:recover") ∈ Gen.panicGuards ∧
    ("util/err.go", "Recover", "helper:recover") ∈ Gen.panicGuards := by decide

end Yae.C12

#print axioms Yae.C12.lex_no_fuel
#print axioms Yae.C12.lex_steps
#print axioms Yae.C12.lex_fuel_mono
#print axioms Yae.C12.lex_rule_attempts
#print axioms Yae.C12.parse_no_fuel_partial
#print axioms Yae.C12.parseWith_no_fuel
#print axioms Yae.C12.parse_fuel_witness
#print axioms Yae.C12.guards_tie
#print axioms Yae.C12.contained_partial
#print axioms Yae.C12.helpers_recover
