/-
  C12 (the part a model can carry). "… terminate and report failure through their error result …
  Compile time grows at most polynomially with the length of the source …"

  In the model every stage is a total function into value-or-error (Lean accepts only
  terminating definitions; no `partial`).  Totality is bought with FUEL arguments, so what has
  to be shown is that the fuel handed out by the top-level functions is never the reason for a
  failure: the outcome `.fuel` (which stands for "the Go code does not terminate") is
  unreachable.  This file collects those statements for the lexer and the parser and points to
  the ones proved elsewhere.

  * lexer: `lex_no_fuel`, `lex_steps`, `lex_fuel_mono`, `lex_rule_attempts`
  * parser: `parse_no_fuel_partial`, `parseWith_no_fuel` (depth of the call chain);
    `parser_cost_erasure`, `parse_cost_erasure`, `expr_work_linear`, `parseWith_work_linear`,
    `parse_work_linear` (amount of work), `parse_nodes` (size of the tree)
  * desugarer: `desugar_cost_erasure`, `desugar_work_linear`, `desugar_nodes`
  * the stages together: `compile_work_partial`
  * proved elsewhere (not re-proved here):
      unifier fuel suffices            `Yae.C17.unify_fuel_sufficient`   (Yae/Props/C17.lean)
      checker never reports `.fuel`    `Yae.C05.never_fuel`              (Yae/Props/C05b.lean)
      evaluator fuel = depth of tree   `Yae.C02.progress`                (Yae/Props/C02.lean)
      VM: steps ≤ code size            `Yae.C11.verify_sound`            (Yae/Props/C11.lean)

  WORK.  The model has no cost semantics, so one is defined explicitly and tied to the model
  functions by construction: `Yae/Spec/ParseCost.lean` and `Yae/Spec/DesugarCost.lean` contain
  literal copies of the model functions (same arguments, same case structure) that return the
  model's result together with a counter, and ERASURE theorems say that dropping the counter
  gives exactly the model function, for all arguments.  What is counted is stated below; what
  a function does between two counted events is bounded per event but NOT counted.

  Lexer: at most `s.length + 1` rounds (`lex` hands `lexLoop` that fuel; a successful run makes
  exactly `#tokens + 1`: `lex_steps`); per round at most `ops.length + 22` rule attempts
  (`lex_rule_attempts`), each a prefix test or one of the ten single-pass scanners of
  `Yae.Model.Lexer` over the remaining input (structural recursions on the input list, the two
  `reStar` loops with fuel = length of the rest).  So the work is `O(|s|² · (|ops| + 22))`; only
  the round count and the attempt count are theorems.

  Parser.  DEPTH of the call chain: linear (`parseWith_no_fuel`: fuel `4 * #tokens + 1` suffices).
  WORK, unit = one call of any of the seven mutually recursive parser functions (`expr`, one
  round of `parseInfix`, `parseCall`, one round of each of the four loops): with no operator of
  kind `<END-OF-FILE>`, `parse` makes at most `2 * #tokens + 1` calls whatever the outcome, at
  most `2 * #tokens` when it succeeds (`parse_work_linear`), and this AT EVERY FUEL
  (`parseWith_work_linear`: the bound is not an artefact of the fuel).  Locally
  (`expr_work_linear`): `expr` started at cursor `i` makes at most `2 * (tokens left) + 1` calls
  and, if it returns at cursor `j`, at most `2 * (j - i)`.  Both constants are attained
  (examples).  The one-pass list-or-map rule of the current model has no backtracking (finding
  D14 concerned the earlier two-pass `tryParse` version).  Between
  two calls: at most two lookups in the grammar tables (linear in `|ops| + 13`), at most four
  token inspections, one `Pos.range`, one `infixNCheck` (roots of the operands only), one literal
  conversion (one pass over the lexeme of the token just eaten) and the `reverse` / `ofList` of
  an accumulator no longer than the rounds of its loop: `O(#tokens · |ops| + |s|)` altogether,
  not a theorem.  The tree has at most `#tokens` nodes (`parse_nodes`).

  Desugarer: structural recursion; unit = one call of `desugar`; at most one call per node
  (`desugar_work_linear`), the result has at most twice the nodes (`desugar_nodes`).

  Type checker and VM compiler: NOT instrumented (monadic code; the instrumented copies would be
  as long as the models).  Both are structural recursions over the desugared tree
  (`Yae.check` / `checkElems` / … by Lean's structural termination checker on `Expr`;
  `Yae.Vm.compileE` on fuel = depth of the tree, every call on a sub-expression, plus at most one
  constant `true` / `false` node per `and` / `or`), so each visits a node once.  Per call node the
  checker resolves the overload: one filter over the function table, and for each polymorphic
  candidate one `inferFun` = two `unify` and two `applySubst` with fuel `defaultFuel`.  The
  unifier's recursion depth is bounded by the size of the variable-free side
  (`Yae.C17.unify_fuel_sufficient`: fuel `≥ sizeOf g` is never exhausted; under its hypotheses every
  recursive call is on a strict sub-term of `g`), which is why the checker never reports `.fuel`
  (`Yae.C05.never_fuel`); for signatures satisfying `sigOK` (all built-ins) `inferFun` EQUALS the
  specification `instantiate` (`Yae.C05.sigOK_inferFun`), a one-pass structural match `pmatchList`
  of the parameter patterns against the argument types (one `tyEq` per repeated variable, one
  `find?` per object field).  So per candidate the RESULT is that of a computation polynomial in
  the sizes of the signature and of the argument types; a bound on the steps the model's `unify`
  itself takes is not proved.  Argument types can be as large as the sub-expression that has them
  (nested literals), so the checker's work is not linear in the number of nodes in general.
-/
import Yae.Proofs.LexRules
import Yae.Proofs.ParseFuel
import Yae.Proofs.ParseNodeCount
import Yae.Proofs.DesugarCost
import Yae.Gen.Guards
namespace Yae.C12
open Yae

/-! ## lexer -/

/-- With no operator of empty kind the lexer terminates with tokens or the syntax error: the
fuel `input.length + 1` is never exhausted. -/
theorem lex_no_fuel {ops : List Operator} (hops : ∀ o ∈ ops, o.kind ≠ "") (s : List Char) :
    lex ops s ≠ .error .fuel :=
  lexLoop_no_fuel (newLexicon_progress hops) _ _ _ (Nat.lt_succ_self _)

example : ∀ o ∈ [(⟨"+", 7, fixInfixL⟩ : Operator), ⟨"not", 9, fixPrefix⟩], o.kind ≠ "" := by decide

/-- The hypothesis is needed (Go: `strings.HasPrefix(s, "")` matches without consuming; the loop
never ends). -/
example : lex [⟨"", 7, fixInfixL⟩] "a".toList = .error .fuel := by decide +kernel

/-- Number of rounds of the loop: a successful run makes exactly one round per token plus the
final round that finds the end of input (`ts.length + 1` is the fuel actually needed), and there
are at most as many tokens as runes: each round consumes at least one. -/
theorem lex_steps {ops : List Operator} {s : List Char} {ts : List Token}
    (h : lex ops s = .ok ts) :
    ts.length ≤ s.length ∧ lexLoop (newLexicon ops) (ts.length + 1) s Pos.zero = .ok ts :=
  ⟨(lex_lexed h).length_le, lexLoop_fuel_exact h⟩

example : lex [] "a b".toList
    = .ok [⟨"<sym>", "a", ⟨0, 1, 0, 0⟩⟩, ⟨"<sym>", "b", ⟨2, 3, 2, 0⟩⟩] := by decide +kernel

/-- Any outcome other than `.fuel` is independent of the fuel once it is reached. -/
theorem lex_fuel_mono {rules : List Rule} {f f' : Nat} {cs : List Char} {p : Pos}
    {r : Except LexErr (List Token)} (h : lexLoop rules f cs p = r) (hr : r ≠ .error .fuel)
    (hf : f ≤ f') : lexLoop rules f' cs p = r :=
  lexLoop_fuel_mono h hr hf

example : lexLoop (newLexicon []) 2 "a".toList Pos.zero = .ok [⟨"<sym>", "a", ⟨0, 1, 0, 0⟩⟩] := by
  decide +kernel

/-- Rule attempts per round: the lexicon has `ops.length + 22` rules and `firstMatch` tries each
at most once. -/
theorem lex_rule_attempts (ops : List Operator) : (newLexicon ops).length = ops.length + 22 :=
  newLexicon_length ops

/-! ## parser -/

/-- `parse` never runs out of fuel, for every operator table without an operator of kind
`<END-OF-FILE>`, every token list and every `strtotime` table.

Full statement (no hypothesis on `ops`) is FALSE in the model and in Go: a PREFIX operator of
kind `<END-OF-FILE>` is applied again and again at the end of the input, because eating the
end-of-file token does not advance (Go does not terminate): `parse_fuel_witness` below. -/
theorem parse_no_fuel_partial {ops : List Operator} (hops : ∀ o ∈ ops, o.kind ≠ "<END-OF-FILE>")
    (times : List (String × Int)) (toks : List Token) :
    parse ops times toks ≠ .error .fuel :=
  parseWith_no_fuel hops times toks (by unfold parseFuel; omega)

example : ∀ o ∈ [(⟨"+", 7, fixInfixL⟩ : Operator), ⟨"not", 9, fixPrefix⟩],
    o.kind ≠ "<END-OF-FILE>" := by decide

/-- the excluded table: with a PREFIX operator whose kind is the end-of-file marker the model runs
out of fuel on the empty input (Go: `expr` eats the end-of-file token, which does not advance the
cursor, finds the prefix rule and calls `expr` again: unbounded recursion).  A postfix or infix
operator of that kind does not loop: `pos.Range` refuses the position of the end-of-file token. -/
theorem parse_fuel_witness :
    (match parse [⟨"<END-OF-FILE>", 7, fixPrefix⟩] [] [] with
     | .error .fuel => true
     | _ => false) = true := by
  decide +kernel

/-- The depth of the parser's call chain is linear: any fuel `≥ 4 * #tokens + 1` will do
(`parseFuel` hands out `4 * #tokens + 32`). -/
theorem parseWith_no_fuel {ops : List Operator} (hops : ∀ o ∈ ops, o.kind ≠ "<END-OF-FILE>")
    (times : List (String × Int)) (toks : List Token) {fuel : Nat}
    (hf : 4 * toks.length + 1 ≤ fuel) : parseWith fuel ops times toks ≠ .error .fuel :=
  Yae.parseWith_no_fuel hops times toks hf

/-! ## work of the parser

Cost unit: one call of any of the seven parser functions (`Yae/Spec/ParseCost.lean`). -/

/-- ERASURE: at every fuel and for all arguments, each instrumented parser function is the model
function plus a counter. -/
theorem parser_cost_erasure (env : PEnv) (f : Nat) :
    (∀ rbp i, (pExprC env f rbp i).1 = pExpr env f rbp i) ∧
    (∀ l rbp i, (pInfixC env f l rbp i).1 = pInfix env f l rbp i) ∧
    (∀ c t i, (pCallC env f c t i).1 = pCall env f c t i) ∧
    (∀ acc i, (pArgsC env f acc i).1 = pArgs env f acc i) ∧
    (∀ acc i, (pListC env f acc i).1 = pList env f acc i) ∧
    (∀ acc i, (pMapC env f acc i).1 = pMap env f acc i) ∧
    (∀ acc i, (pObjC env f acc i).1 = pObj env f acc i) :=
  have h := erase_all env f
  ⟨fun a b => (h.exprE a b).symm, fun a b c => (h.infixE a b c).symm,
    fun a b c => (h.callE a b c).symm, fun a b => (h.argsE a b).symm,
    fun a b => (h.listE a b).symm, fun a b => (h.mapE a b).symm, fun a b => (h.objE a b).symm⟩

/-- … hence `parseC` is `parse` plus a counter (and `parseWithC` is `parseWith`). -/
theorem parse_cost_erasure (ops : List Operator) (times : List (String × Int)) (toks : List Token) :
    (parseC ops times toks).1 = parse ops times toks ∧
    ∀ fuel, (parseWithC fuel ops times toks).1 = parseWith fuel ops times toks :=
  ⟨parseC_erase ops times toks, fun fuel => parseWithC_erase fuel ops times toks⟩

/-- `expr(rbp)` started at cursor `i`, whatever the fuel and whatever the outcome, makes at most
`2 * (tokens left) + 1` calls; if it returns, at cursor `j`, it has consumed `j - i ≥ 1` tokens,
stayed inside the input and made at most `2 * (j - i)` calls. -/
theorem expr_work_linear {env : PEnv} (hE : env.NoEOF) (f : Nat) (rbp : BP) (i : Nat) :
    (pExprC env f rbp i).2 ≤ 2 * (env.toks.size - i) + 1 ∧
    ∀ x j, (pExprC env f rbp i).1 = .ok (x, j) →
      i < j ∧ j ≤ env.toks.size ∧ (pExprC env f rbp i).2 ≤ 2 * (j - i) :=
  pExprC_calls hE f rbp i

/-- The work of `Parse` is linear at every fuel: at most `2 * #tokens + 1` calls whatever the
outcome (syntax error, missing `strtotime` entry and `.fuel` included), at most `2 * #tokens` on
success. -/
theorem parseWith_work_linear {ops : List Operator} (hops : ∀ o ∈ ops, o.kind ≠ "<END-OF-FILE>")
    (times : List (String × Int)) (toks : List Token) (fuel : Nat) :
    (parseWithC fuel ops times toks).2 ≤ 2 * toks.length + 1 ∧
    ∀ e, (parseWithC fuel ops times toks).1 = .ok e →
      (parseWithC fuel ops times toks).2 ≤ 2 * toks.length :=
  parseWithC_calls hops times toks fuel

/-- **`parse` makes at most `2 * #tokens + 1 ≤ 2 * (#tokens + 1)` calls**, at most `2 * #tokens`
when it succeeds. -/
theorem parse_work_linear {ops : List Operator} (hops : ∀ o ∈ ops, o.kind ≠ "<END-OF-FILE>")
    (times : List (String × Int)) (toks : List Token) :
    (parseC ops times toks).2 ≤ 2 * toks.length + 1 ∧
    ∀ e, parse ops times toks = .ok e → (parseC ops times toks).2 ≤ 2 * toks.length := by
  have h := parseWithC_calls hops times toks (parseFuel toks.length)
  refine ⟨h.1, fun e he => h.2 e ?_⟩
  rw [parseWithC_erase]; exact he

/-- tokens, calls made, success -/
def parseCalls (s : String) : Option (Nat × Nat × Bool) :=
  match lex builtinOps s.toList with
  | .ok ts =>
    some (ts.length, (parseC builtinOps [] ts).2,
      match (parseC builtinOps [] ts).1 with | .ok _ => true | .error _ => false)
  | .error _ => none

/-- `a + b * c`: 5 tokens, 8 calls (`expr` 3, rounds of `parseInfix` 5) -/
example : parseCalls "a + b * c" = some (5, 8, true) := by decide +kernel
/-- a ten-deep bracket nest: 20 tokens, 20 calls (one `expr` and one round per level) -/
example : parseCalls "[[[[[[[[[[]]]]]]]]]]" = some (20, 20, true) := by decide +kernel
example : parseCalls "[[[[[[[[[[1]]]]]]]]]]" = some (21, 22, true) := by decide +kernel
example : parseCalls "f(a, b)[0].x ? [1:2, 3:4] : {a: 1, b: -2}" = some (32, 36, true) := by
  decide +kernel
/-- the constant `2` is attained on success … -/
example : parseCalls "- - - - a" = some (5, 10, true) := by decide +kernel
/-- … and `2 * #tokens + 1` on failure -/
example : parseCalls "f(f(f(f(f(f(f(" = some (14, 29, false) := by decide +kernel
example : parseCalls "" = some (0, 1, false) := by decide +kernel

/-- the hypothesis is needed: with the table of `parse_fuel_witness` the calls on the empty input
are as many as the fuel (`parseFuel 0 + 1`; Go does not terminate) -/
theorem parse_work_witness :
    (parseC [⟨"<END-OF-FILE>", 7, fixPrefix⟩] [] []).2 = 33 := by decide +kernel

/-- The tree has at most as many nodes as there are tokens (every node owns a token). -/
theorem parse_nodes {ops : List Operator} (hops : ∀ o ∈ ops, o.kind ≠ "<END-OF-FILE>")
    (times : List (String × Int)) (toks : List Token) {e : Expr}
    (h : parse ops times toks = .ok e) : e.nodes ≤ toks.length :=
  parseWith_nodes hops times toks _ h

/-! ## work of the desugarer

Cost unit: one call of `desugar` (`Yae/Spec/DesugarCost.lean`). -/

/-- ERASURE: `desugarC` is `desugar` plus a counter. -/
theorem desugar_cost_erasure (e : Expr) : (desugarC e).1 = desugar e := desugarC_erase e

/-- at most one call per node -/
theorem desugar_work_linear (e : Expr) : (desugarC e).2 ≤ e.nodes := desugarC_calls e

/-- the desugared tree (the input of the checker and of the VM compiler) has at most twice the
nodes -/
theorem desugar_nodes (e : Expr) : (desugar e).nodes ≤ 2 * e.nodes := Yae.desugar_nodes e

/-- tokens, nodes of the tree, calls of `desugar`, nodes of the desugared tree -/
def desugarCalls (s : String) : Option (Nat × Nat × Nat × Nat) :=
  match lex builtinOps s.toList with
  | .ok ts =>
    match parse builtinOps [] ts with
    | .ok e => some (ts.length, e.nodes, (desugarC e).2, (desugar e).nodes)
    | .error _ => none
  | .error _ => none

example : desugarCalls "a + b * c" = some (5, 5, 5, 7) := by decide +kernel
/-- the `Member` callee is not visited: 4 nodes, 3 calls -/
example : desugarCalls "x.f(a)" = some (6, 4, 3, 4) := by decide +kernel

/-! ## the stages together -/

/-- From the source text to the desugared tree, in terms of the number of runes `s.length`
(`lex ops s` is by definition `lexLoop (newLexicon ops) (s.length + 1) s Pos.zero`: at most
`s.length + 1` rounds also when it fails).  When the lexer succeeds with tokens `ts`:
it made `ts.length + 1 ≤ s.length + 1` rounds of at most `ops.length + 22` rule attempts;
parsing `ts` makes at most `2 * s.length + 1` calls whatever the outcome; a tree that comes out
has at most `s.length` nodes, desugaring it makes at most `s.length` calls and gives a tree of at
most `2 * s.length` nodes.

PARTIAL: the units are rounds / rule attempts / calls, the work inside one unit is bounded but
not counted (see the header); the type checker and the VM compiler are not covered. -/
theorem compile_work_partial {ops : List Operator} (hops : ∀ o ∈ ops, o.kind ≠ "<END-OF-FILE>")
    (times : List (String × Int)) {s : List Char} {ts : List Token} (h : lex ops s = .ok ts) :
    lexLoop (newLexicon ops) (ts.length + 1) s Pos.zero = .ok ts ∧
    (newLexicon ops).length = ops.length + 22 ∧
    ts.length ≤ s.length ∧
    (parseC ops times ts).1 = parse ops times ts ∧
    (parseC ops times ts).2 ≤ 2 * s.length + 1 ∧
    ∀ e, parse ops times ts = .ok e →
      e.nodes ≤ s.length ∧ (desugarC e).1 = desugar e ∧ (desugarC e).2 ≤ s.length ∧
      (desugar e).nodes ≤ 2 * s.length := by
  have hl := lex_steps h
  have hp := parse_work_linear hops times ts
  refine ⟨hl.2, lex_rule_attempts ops, hl.1, parseC_erase ops times ts, by omega, ?_⟩
  intro e he
  have hn := parse_nodes hops times ts he
  have hd := desugar_work_linear e
  have hd' := desugar_nodes e
  exact ⟨by omega, desugarC_erase e, by omega, by omega⟩

/-- non-vacuity: a source text that lexes and parses -/
example : ∃ ts e, lex builtinOps "a + b * c".toList = .ok ts ∧ parse builtinOps [] ts = .ok e := by
  refine ⟨[⟨"<sym>", "a", ⟨0, 1, 0, 0⟩⟩, ⟨"+", "+", ⟨2, 3, 2, 0⟩⟩, ⟨"<sym>", "b", ⟨4, 5, 4, 0⟩⟩,
    ⟨"*", "*", ⟨6, 7, 6, 0⟩⟩, ⟨"<sym>", "c", ⟨8, 9, 8, 0⟩⟩], ?_⟩
  have h : (match parse builtinOps [] [⟨"<sym>", "a", ⟨0, 1, 0, 0⟩⟩, ⟨"+", "+", ⟨2, 3, 2, 0⟩⟩,
      ⟨"<sym>", "b", ⟨4, 5, 4, 0⟩⟩, ⟨"*", "*", ⟨6, 7, 6, 0⟩⟩, ⟨"<sym>", "c", ⟨8, 9, 8, 0⟩⟩] with
      | .ok _ => true | .error _ => false) = true := by decide +kernel
  split at h
  · rename_i e he
    exact ⟨e, by decide +kernel, he⟩
  · cases h

example : ∀ o ∈ builtinOps, o.kind ≠ "<END-OF-FILE>" := by decide

/-! ## containment of panics at the API boundary

Go reports every internal failure by `panic`; the API functions turn panics into their error
result with deferred recovers.  WHICH functions install a recover is regenerated from the source
on every run (`Gen.panicGuards`: go/ast scan of facade.go, conv/*.go, ext/sql.go, util/err.go) and
must equal `expectedGuards`.  The call structure of the four entry points (`apiStages`) is
hand-modelled from facade.go: for every internal stage an entry point runs, the guard that is in
scope while it runs, or `none`.  `contained_partial`: a stage without a guard in scope is one of
the three stages that are total functions in the model (so nothing can be raised there): the
top-level walk of `TypeEnvOf` / `ValEnvOf` (`Yae.typeEnvOf`, `Yae.valEnvOf` return `Except`; the Go
code tests kinds and nil-ness before every reflect call: findings D30, D31 were exactly such
unguarded panics and were repaired) and the report renderer (`Yae.Debug.render`: total, and see
`Yae.C19.render_shows`).  PARTIAL: the call structure is read off the source by hand, not
extracted; the run-time search for escaping panics is the `api` / `history` / `conv` / `debug`
streams (`api-panic`, `conv-panic`, `debug-panic`, `process-crash`). -/

/-- the guards the API layer installs (file, function, how) -/
def expectedGuards : List (String × String × String) := [
  ("conv/type.go", "typeOfRV", "defer:Recover"),
  ("conv/val.go", "valOfRV", "defer:Recover"),
  ("ext/sql.go", "CompileToSql/closure", "defer:literal"),
  ("facade.go", "Expr.Compile", "defer:backStrace"),
  ("facade.go", "Expr.backStrace", "helper:recover"),
  ("facade.go", "Expr.envCheck", "defer:backStrace"),
  ("facade.go", "Expr.makeCallable/closure", "defer:backStrace"),
  ("util/err.go", "Recover", "helper:recover")]

theorem guards_tie : Gen.panicGuards = expectedGuards := by decide

inductive Stage where
  | convTypeTop | convTypeField | convValTop | convValField
  | lex | parse | desugar | check | compile | envCheck | run | render
  deriving DecidableEq, Repr

/-- entry point ↦ the stages it runs, each with the guard in scope (function of `expectedGuards`) -/
def apiStages : List (String × List (Stage × Option String)) := [
  ("Expr.Compile", [
    (.convTypeTop, none), (.convTypeField, some "typeOfRV"),
    (.lex, some "Expr.Compile"), (.parse, some "Expr.Compile"), (.desugar, some "Expr.Compile"),
    (.check, some "Expr.Compile"), (.compile, some "Expr.Compile")]),
  ("Callable", [
    (.convValTop, some "Expr.makeCallable/closure"), (.convValField, some "valOfRV"),
    (.envCheck, some "Expr.envCheck"), (.run, some "Expr.makeCallable/closure")]),
  ("Eval", [
    (.convTypeTop, none), (.convTypeField, some "typeOfRV"),
    (.lex, some "Expr.Compile"), (.parse, some "Expr.Compile"), (.desugar, some "Expr.Compile"),
    (.check, some "Expr.Compile"), (.compile, some "Expr.Compile"),
    (.convValTop, none), (.convValField, some "valOfRV"),
    (.envCheck, some "Expr.envCheck"), (.run, some "Expr.makeCallable/closure")]),
  ("Debug", [
    (.convTypeTop, none), (.convTypeField, some "typeOfRV"),
    (.lex, some "Expr.Compile"), (.parse, some "Expr.Compile"), (.desugar, some "Expr.Compile"),
    (.check, some "Expr.Compile"), (.compile, some "Expr.Compile"),
    (.convValTop, none), (.convValField, some "valOfRV"),
    (.envCheck, some "Expr.envCheck"), (.run, some "Expr.makeCallable/closure"),
    (.render, none)])]

/-- the stages that are total functions in the model -/
def totalStages : List Stage := [.convTypeTop, .convValTop, .render]

/-- every stage an entry point runs is either covered by a guard that the code installs NOW
(`Gen.panicGuards`, regenerated), or is one of the stages that cannot raise -/
def stageCovered (st : Stage × Option String) : Bool :=
  match st.2 with
  | some g => (Gen.panicGuards.map (·.2.1)).contains g
  | none => totalStages.contains st.1

theorem contained_partial :
    (apiStages.all fun e => e.2.all stageCovered) = true := by decide

/-- … and the two helpers through which the guards recover really call `recover()` -/
theorem helpers_recover :
    ("facade.go", "Expr.backStrace", "helper:recover") ∈ Gen.panicGuards ∧
    ("util/err.go", "Recover", "helper:recover") ∈ Gen.panicGuards := by decide

end Yae.C12

#print axioms Yae.C12.lex_no_fuel
#print axioms Yae.C12.lex_steps
#print axioms Yae.C12.lex_fuel_mono
#print axioms Yae.C12.lex_rule_attempts
#print axioms Yae.C12.parse_no_fuel_partial
#print axioms Yae.C12.parseWith_no_fuel
#print axioms Yae.C12.parse_fuel_witness
#print axioms Yae.C12.parser_cost_erasure
#print axioms Yae.C12.parse_cost_erasure
#print axioms Yae.C12.expr_work_linear
#print axioms Yae.C12.parseWith_work_linear
#print axioms Yae.C12.parse_work_linear
#print axioms Yae.C12.parse_work_witness
#print axioms Yae.C12.parse_nodes
#print axioms Yae.C12.desugar_cost_erasure
#print axioms Yae.C12.desugar_work_linear
#print axioms Yae.C12.desugar_nodes
#print axioms Yae.C12.compile_work_partial
#print axioms Yae.C12.guards_tie
#print axioms Yae.C12.contained_partial
#print axioms Yae.C12.helpers_recover
