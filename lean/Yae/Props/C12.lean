/-
  C12 (the part a model can carry). "… terminate and report failure through their error result …
  Compile time grows at most polynomially with the length of the source …"

  In the model every stage is a total function into value-or-error (Lean accepts only
  terminating definitions; no `partial`).  Totality is bought with FUEL arguments, so what has
  to be shown is that the fuel handed out by the top-level functions is never the reason for a
  failure: the outcome `.fuel` (which stands for "the Go code does not terminate") is
  unreachable.  This file collects those statements for the lexer and the parser and points to
  the ones proved elsewhere.

  * lexer: `lex_no_fuel`, `lex_steps`, `lex_fuel_mono`, `lex_rule_attempts`
  * parser: `parse_no_fuel_partial`, `parseWith_no_fuel`
  * proved elsewhere (not re-proved here):
      unifier fuel suffices            `Yae.C17.unify_fuel_sufficient`   (Yae/Props/C17.lean)
      evaluator fuel = depth of tree   `Yae.C02.progress`                (Yae/Props/C02.lean)
      VM: steps ≤ code size            `Yae.C11.verify_sound`            (Yae/Props/C11.lean)

  Polynomial bound for the lexer: at most `s.length + 1` rounds (`lex_steps`); per round at most
  `ops.length + 22` rule attempts (`lex_rule_attempts`), each a prefix test or one of the ten
  single-pass scanners of `Yae.Model.Lexer` over the remaining input (structural recursions on
  the input list, the two `reStar` loops with fuel = length of the rest).  So the work is
  `O(|s|² · (|ops| + 22))`; only the round count and the attempt count are stated as theorems,
  the model has no cost semantics.
  Parser: the DEPTH of the call chain is linear in the number of tokens (`parseWith_no_fuel`:
  `4 * #tokens + 1` suffices).  The amount of work is not bounded here; the one-pass list-or-map
  rule of the current model has no backtracking (finding D14 concerned the earlier two-pass
  `tryParse` version).
-/
import Yae.Proofs.LexRules
import Yae.Proofs.ParseFuel
namespace Yae.C12
open Yae

/-! ## lexer -/

/-- With no operator of empty kind the lexer terminates with tokens or the syntax error: the
fuel `input.length + 1` is never exhausted. -/
theorem lex_no_fuel {ops : List Operator} (hops : ∀ o ∈ ops, o.kind ≠ "") (s : List Char) :
    lex ops s ≠ .error .fuel :=
  lexLoop_no_fuel (newLexicon_progress hops) _ _ _ (Nat.lt_succ_self _)

example : ∀ o ∈ [(⟨"+", 7, fixInfixL⟩ : Operator), ⟨"not", 9, fixPrefix⟩], o.kind ≠ "" := by decide

/-- The hypothesis is needed (Go: `strings.HasPrefix(s, "")` matches without consuming; the loop
never ends). -/
example : lex [⟨"", 7, fixInfixL⟩] "a".toList = .error .fuel := by decide +kernel

/-- Number of rounds of the loop: a successful run makes exactly one round per token plus the
final round that finds the end of input (`ts.length + 1` is the fuel actually needed), and there
are at most as many tokens as runes: each round consumes at least one. -/
theorem lex_steps {ops : List Operator} {s : List Char} {ts : List Token}
    (h : lex ops s = .ok ts) :
    ts.length ≤ s.length ∧ lexLoop (newLexicon ops) (ts.length + 1) s Pos.zero = .ok ts :=
  ⟨(lex_lexed h).length_le, lexLoop_fuel_exact h⟩

example : lex [] "a b".toList
    = .ok [⟨"<sym>", "a", ⟨0, 1, 0, 0⟩⟩, ⟨"<sym>", "b", ⟨2, 3, 2, 0⟩⟩] := by decide +kernel

/-- Any outcome other than `.fuel` is independent of the fuel once it is reached. -/
theorem lex_fuel_mono {rules : List Rule} {f f' : Nat} {cs : List Char} {p : Pos}
    {r : Except LexErr (List Token)} (h : lexLoop rules f cs p = r) (hr : r ≠ .error .fuel)
    (hf : f ≤ f') : lexLoop rules f' cs p = r :=
  lexLoop_fuel_mono h hr hf

example : lexLoop (newLexicon []) 2 "a".toList Pos.zero = .ok [⟨"<sym>", "a", ⟨0, 1, 0, 0⟩⟩] := by
  decide +kernel

/-- Rule attempts per round: the lexicon has `ops.length + 22` rules and `firstMatch` tries each
at most once. -/
theorem lex_rule_attempts (ops : List Operator) : (newLexicon ops).length = ops.length + 22 :=
  newLexicon_length ops

/-! ## parser -/

/-- `parse` never runs out of fuel, for every operator table without an operator of kind
`<END-OF-FILE>`, every token list and every `strtotime` table.

Full statement (no hypothesis on `ops`) is FALSE in the model and in Go: a POSTFIX operator of
kind `<END-OF-FILE>` is applied again and again at the end of the input, because eating the
end-of-file token does not advance (Go does not terminate).  This cannot be shown by evaluation
in the kernel (binding powers are opaque `Float`s), it is the reason for `.fuel` recorded in the
header of `Yae/Model/Parser.lean`. -/
theorem parse_no_fuel_partial {ops : List Operator} (hops : ∀ o ∈ ops, o.kind ≠ "<END-OF-FILE>")
    (times : List (String × Int)) (toks : List Token) :
    parse ops times toks ≠ .error .fuel :=
  parseWith_no_fuel hops times toks (by unfold parseFuel; omega)

example : ∀ o ∈ [(⟨"+", 7, fixInfixL⟩ : Operator), ⟨"not", 9, fixPrefix⟩],
    o.kind ≠ "<END-OF-FILE>" := by decide

/-- The depth of the parser's call chain is linear: any fuel `≥ 4 * #tokens + 1` will do
(`parseFuel` hands out `4 * #tokens + 32`). -/
theorem parseWith_no_fuel {ops : List Operator} (hops : ∀ o ∈ ops, o.kind ≠ "<END-OF-FILE>")
    (times : List (String × Int)) (toks : List Token) {fuel : Nat}
    (hf : 4 * toks.length + 1 ≤ fuel) : parseWith fuel ops times toks ≠ .error .fuel :=
  Yae.parseWith_no_fuel hops times toks hf

end Yae.C12

#print axioms Yae.C12.lex_no_fuel
#print axioms Yae.C12.lex_steps
#print axioms Yae.C12.lex_fuel_mono
#print axioms Yae.C12.lex_rule_attempts
#print axioms Yae.C12.parse_no_fuel_partial
#print axioms Yae.C12.parseWith_no_fuel
