/-
  C12, the composed pipeline.  "For every source string and every host value passed as environment,
  Eval, Compile, the returned Callable … terminate and report failure through their error result."

  `Yae.Facade.compileSrc` / `evalSrc` (`Yae/Model/Facade.lean`) compose the stage models exactly as
  `facade.go` composes the stages: lex, parse, desugar, type check, environment check, evaluate.
  The composition is tied to the Go facade FROM THE SOURCE TEXT by the `pipeline` cases of the
  `eval` stream (Compile + Callable through the public API against `evalSrc`).

  * `compile_total`: for every operator table without an operator named "", `<END-OF-FILE>` or like
    a literal kind, every well-formed signature environment, every `strtotime` table and EVERY source
    text, compilation ends in a type and an annotated tree, in the syntax error, in a type error —
    or in the model-only `externMiss` (a time literal outside the supplied `strtotime` table) —
    and never in an outcome that stands for a Go run-time fault or a non-terminating loop
    (`fuel` of the lexer, parser or unifier; `Unreachable()` of the desugarer).
  * `run_total`: if moreover the run-time environment is accepted by the environment check and its
    values are well formed (C15), the invocation yields a value of the inferred type or one of the
    documented failures (`Allowed`), never an internal fault.
  Wall time, goroutine stacks and process death are outside any model (see `Yae/Props/C12.lean`).
-/
import Yae.Model.Facade
import Yae.Proofs.ParseTernaries
import Yae.Proofs.LexOpLexemes
import Yae.Props.C12
import Yae.Props.C05b
import Yae.Props.C02
import Yae.Props.C07
import Yae.Props.C10
namespace Yae.C12
open Yae Yae.Facade Yae.PolyOK

/-- what the theorems need of an operator table -/
def OpsOK (ops : List Operator) : Prop :=
  ∀ o ∈ ops, o.kind ≠ "" ∧ o.kind ≠ "<END-OF-FILE>" ∧ o.kind ∉ literalKinds

instance (ops : List Operator) : Decidable (OpsOK ops) := by unfold OpsOK; infer_instance

example : OpsOK builtinOps := by decide

/-- the outcomes of compilation that report a failure of the INPUT (as opposed to a fault of the
implementation) -/
def reported : CompileErr → Prop
  | .lex e => e = .syntax
  | .parse e => e = .syntax ∨ e = .externMiss
  | .desugar => False
  | .check e => e ≠ .fuel

/-- **Compilation is total and reports.**  Whatever the source text. -/
theorem compile_total {ops : List Operator} (hops : OpsOK ops) {Γ : TEnv} (hΓ : SigEnv Γ)
    (times : List (String × Int)) (src : String) :
    (∃ T e', compileSrc ops times Γ src = .ok (T, e')) ∨
    (∃ err, compileSrc ops times Γ src = .error err ∧ reported err) := by
  unfold compileSrc
  cases hl : lex ops src.toList with
  | error e =>
    right; refine ⟨.lex e, rfl, ?_⟩
    cases e
    · rfl
    · exact absurd hl (lex_no_fuel (fun o ho => (hops o ho).1) _)
  | ok toks =>
    simp only
    have hL : OpLexemes ops toks := lexed_opLexemes (fun o ho => (hops o ho).2.2) hl
    cases hp : parse ops times toks with
    | error e =>
      right; refine ⟨.parse e, rfl, ?_⟩
      cases e
      · exact .inl rfl
      · exact .inr rfl
      · exact absurd hp (parse_no_fuel_partial (fun o ho => (hops o ho).2.1) times toks)
    | ok parsed =>
      simp only
      have ht := parse_ternariesOk (fun o ho => (hops o ho).2.1) hL hp
      have hd : desugarGo parsed = some (desugar parsed) := by simp [desugarGo, ht]
      rw [hd]
      simp only
      cases hc : check Γ 0 (desugar parsed) with
      | error e =>
        right; refine ⟨.check e, rfl, ?_⟩
        intro he
        exact Yae.C05.never_fuel hΓ _ _ (he ▸ hc)
      | ok r =>
        obtain ⟨T, e', c'⟩ := r
        exact .inl ⟨T, e', rfl⟩

/-- non-vacuity: the built-in operator table and the built-in functions with any variables of
expression types satisfy the hypotheses of `compile_total` -/
example {vars : List (String × Ty)} (hv : ∀ p ∈ vars, TyOK p.2 = true) (times : List (String × Int))
    (src : String) :
    (∃ T e', compileSrc builtinOps times (builtinEnv vars) src = .ok (T, e')) ∨
    (∃ err, compileSrc builtinOps times (builtinEnv vars) src = .error err ∧ reported err) :=
  compile_total (by decide) (Yae.C05.builtinEnv_sigEnv hv) times src

/-- **Invocation is total and reports.**  For a compiled program (any source text), a run-time
environment the environment check accepts, well-formed values (converted host data is: C15) and
host functions that respect their signatures (`FunsOK`): the Callable returns a value of the
inferred type, or one of the documented failures — never an internal fault; and when the
environment check refuses, nothing is evaluated (no event). -/
theorem run_total {ops : List Operator} {Γ : TEnv} {ρ : REnv} (hf : Yae.Sound.FunsOK Γ.funs)
    (hfun : ρ.funs = Γ.funs)
    (htys : ∀ p ∈ Γ.vars, p.2.wf = true ∧ slotFree p.2 = true)
    (hwf : ∀ p ∈ ρ.vars, Yae.Sound.WF p.2 = true)
    (times : List (String × Int)) (src : String) {T : Ty} {e' : Expr}
    (hc : compileSrc ops times Γ src = .ok (T, e')) :
    (∃ err, envCheck Γ.vars ρ.vars = .error err ∧ evalSrc ops times Γ ρ src = (.error (.env err), [])) ∨
    (∃ v evs, evalSrc ops times Γ ρ src = (.ok v, evs) ∧ Yae.Sound.HasTy v T) ∨
    (∃ f evs, evalSrc ops times Γ ρ src = (.error (.fail f), evs) ∧ Yae.Sound.Allowed f) := by
  unfold evalSrc
  rw [hc]
  simp only
  cases henv : envCheck Γ.vars ρ.vars with
  | error err => exact .inl ⟨err, rfl, rfl⟩
  | ok u =>
    right
    -- the checked tree comes from `check` on the desugared parse
    obtain ⟨d, hchk⟩ : ∃ d c', check Γ 0 d = .ok (T, e', c') := by
      unfold compileSrc at hc
      cases hl : lex ops src.toList with
      | error e => rw [hl] at hc; cases hc
      | ok toks =>
        rw [hl] at hc
        simp only at hc
        cases hp : parse ops times toks with
        | error e => rw [hp] at hc; cases hc
        | ok parsed =>
          rw [hp] at hc
          simp only at hc
          cases hd : desugarGo parsed with
          | none => rw [hd] at hc; cases hc
          | some d =>
            rw [hd] at hc
            simp only at hc
            cases hck : check Γ 0 d with
            | error e => rw [hck] at hc; cases hc
            | ok r =>
              obtain ⟨ty, e'', c'⟩ := r
              rw [hck] at hc
              simp only [Except.ok.injEq, Prod.mk.injEq] at hc
              obtain ⟨rfl, rfl⟩ := hc
              exact ⟨d, c', hck⟩
    obtain ⟨c', hchk⟩ := hchk
    have hE : Yae.Sound.EnvOK Γ ρ :=
      ⟨fun x T hx => by
          have := Yae.C07.accepted_env_ok (tenv := Γ.vars) (venv := ρ.vars) (funs := Γ.funs)
            (reserved := Γ.reserved) (ext := ρ.ext) henv hwf x T hx
          obtain ⟨v, hv, ht⟩ := this
          refine ⟨v, ?_, ht⟩
          simpa [REnv.lookupVar, hfun] using hv,
        hfun, htys⟩
    rcases Yae.C02.progress_run hf hE hchk false with ⟨v, evs, hr, hv⟩ | ⟨f, evs, hr, ha⟩
    · left; exact ⟨v, evs, by simp [hr], hv⟩
    · right; exact ⟨f, evs, by simp [hr], ha⟩

end Yae.C12

#print axioms Yae.C12.compile_total
#print axioms Yae.C12.run_total
