/-
  C13 (the part a value-level model can carry)
  "… the text produced by converting any value to a string depend[s] only on the source and the
   environment's contents: … changing hash-map iteration order never changes them."

  In the model a map value is an association list in insertion order; Go's map iteration order
  corresponds to an arbitrary permutation of that list.  The theorems say that `Val.render`
  (`(*Val).String()`, also what `print` writes and what set membership uses), `Val.stringify`
  (the `string()` built-in), `==` and key lookup do not depend on that order — at the top level
  and at any depth inside a value.

  NOT invariant (and not claimed): `Val.stringify` of an *object* follows the declaration order
  of the fields of the value's own type (see `stringify_obj_declaration_order`); this is an
  order fixed by the source, not by hash-map iteration.
-/
import Yae.Proofs.ValRelPerm
import Yae.Props.C18
namespace Yae.C13
open Yae

/-- `(*Val).String()` of a map does not depend on the order of its entries. -/
theorem render_map_perm {ty : Ty} {es₁ es₂ : EntryList} (hp : es₁.toList.Perm es₂.toList)
    (hnd : es₁.keyTexts.Nodup) : Val.render (.map ty es₁) = Val.render (.map ty es₂) :=
  render_map_perm' hp hnd

/-- `string(m)` of a map does not depend on the order of its entries. -/
theorem stringify_map_perm {ty : Ty} {es₁ es₂ : EntryList} (hp : es₁.toList.Perm es₂.toList)
    (hnd : es₁.keyTexts.Nodup) : Val.stringify (.map ty es₁) = Val.stringify (.map ty es₂) :=
  stringify_map_perm' hp hnd

example : C18.m1.stringify = C18.m2.stringify :=
  stringify_map_perm (by simp [EntryList.toList]; exact List.Perm.swap _ _ _)
    (by simp [EntryList.keyTexts, EntryList.toList])

example : C18.m1.render = C18.m2.render :=
  render_map_perm (by simp [EntryList.toList]; exact List.Perm.swap _ _ _)
    (by simp [EntryList.keyTexts, EntryList.toList])

/-- Key lookup (`m[k]`, `get`, `isset`) does not depend on the order of the entries. -/
theorem find?_perm {es₁ es₂ : EntryList} (hp : es₁.toList.Perm es₂.toList) (hnd : es₁.keys.Nodup)
    (t : Kind) (k : String) : es₁.find? t k = es₂.find? t k :=
  EntryList.find?_perm hp hnd t k

example (t : Kind) (k : String) :
    (EntryList.cons .str "\"a\"" (.bool true) (.cons .str "\"b\"" (.bool false) .nil)).find? t k =
    (EntryList.cons .str "\"b\"" (.bool false) (.cons .str "\"a\"" (.bool true) .nil)).find? t k :=
  find?_perm (by simp [EntryList.toList]; exact List.Perm.swap _ _ _)
    (by simp [EntryList.keys, EntryList.toList]) t k

/-- `==` on maps does not depend on the order of the entries. -/
theorem valEq_map_perm {ty : Ty} {es₁ es₂ : EntryList} (hp : es₁.toList.Perm es₂.toList)
    (hnd : es₁.keys.Nodup) (hself : valEq (.map ty es₁) (.map ty es₁) = true) :
    valEq (.map ty es₁) (.map ty es₂) = true :=
  valEq_map_perm' hp hnd hself

example : valEq C18.m1 C18.m2 = true :=
  valEq_map_perm (by simp [EntryList.toList]; exact List.Perm.swap _ _ _)
    (by simp [EntryList.keys, EntryList.toList]) (C18.valEq_refl C18.m1_wf C18.m1_selfEq)

/-- **Any depth.**  If `y` is `x` with the entries of any maps inside re-ordered (`PermEq`), then
both conversions to text agree. -/
theorem texts_invariant {x y : Val} (h : PermEq x y) :
    x.render = y.render ∧ x.stringify = y.stringify :=
  h.texts

/-- a list holding a map, and the same list with the map's entries swapped -/
example :
    (Val.list (.list (.map .str .bool)) (.cons C18.m1 .nil)).stringify =
    (Val.list (.list (.map .str .bool)) (.cons C18.m2 .nil)).stringify := by
  refine (texts_invariant (PermEq.list rfl ?_)).2
  intro i v w hv hw
  cases i with
  | zero =>
    simp [ValList.toList] at hv hw
    subst hv; subst hw
    exact PermEq.of_perm (by simp [EntryList.keyTexts, EntryList.toList])
      (by simp [EntryList.toList] <;> exact List.Perm.swap _ _ _)
  | succ i => simp [ValList.toList] at hv

/-- Rendering of objects depends only on the (field name, value) pairs. -/
theorem render_obj_perm {fs₁ fs₂ : FieldList} {vs₁ vs₂ : ValList}
    (hp : (objPairs fs₁ vs₁).Perm (objPairs fs₂ vs₂)) (hnd : fs₁.names.Nodup) :
    Val.render (.obj (.obj fs₁) vs₁) = Val.render (.obj (.obj fs₂) vs₂) :=
  render_obj_perm' hp hnd

example : C18.o1.render = C18.o2.render :=
  render_obj_perm (by simp [objPairs, FieldList.names, ValList.toList]; exact List.Perm.swap _ _ _)
    (by simp [FieldList.names])

/-- NOT invariant: `string()` of objects lists the fields in declaration order.  The two objects
are `==` and render alike, but `string()` tells them apart. -/
theorem stringify_obj_declaration_order :
    valEq C18.o1 C18.o2 = true ∧ C18.o1.render = C18.o2.render ∧
    C18.o1.stringify = "{a: true, b: x}" ∧ C18.o2.stringify = "{b: x, a: true}" :=
  ⟨C18.o1_eq_o2, by decide, by decide, by decide⟩

/-- The sort used for rendering really is canonical: any two permutations of a list with pairwise
distinct keys sort to the same list. -/
theorem sort_canonical {α : Type} (key : α → String) {l₁ l₂ : List α} (hp : l₁.Perm l₂)
    (hnd : (l₁.map key).Nodup) :
    sortBy (fun a b => decide (key a < key b)) l₁ = sortBy (fun a b => decide (key a < key b)) l₂ :=
  sortBy_eq_of_perm key hp hnd

example : sortBy (fun a b : String × Nat => decide (a.1 < b.1)) [("b", 1), ("a", 2)] =
    sortBy (fun a b : String × Nat => decide (a.1 < b.1)) [("a", 2), ("b", 1)] :=
  sort_canonical Prod.fst (List.Perm.swap _ _ _) (by simp)

#print axioms render_map_perm
#print axioms stringify_map_perm
#print axioms find?_perm
#print axioms valEq_map_perm
#print axioms texts_invariant
#print axioms render_obj_perm
#print axioms stringify_obj_declaration_order
#print axioms sort_canonical

end Yae.C13
