/-
  C13. "The result of evaluating an expression, and the text produced by converting any value to
  a string, depend only on the source and the environment's contents: repeating the evaluation,
  recompiling, interleaving it with other compilations and invocations, or changing hash-map
  iteration order never changes them.  Evaluation writes nothing to standard output except through
  print, does not modify the host values, and leaves type and value environments usable for
  further compilations and invocations."

  PART 1 (values): hash-map iteration order.  In the model a map value is an association list in
  insertion order; Go's map iteration order corresponds to an arbitrary permutation of that list.
  `Val.render` (`(*Val).String()`, also what `print` writes and what set membership uses),
  `Val.stringify` (the `string()` built-in), `==` and key lookup do not depend on that order — at
  the top level and at any depth inside a value.
  NOT invariant (and not claimed): `Val.stringify` of an *object* follows the declaration order
  of the fields of the value's own type (`stringify_obj_declaration_order`); this is an order
  fixed by the source, not by hash-map iteration.

  PART 2 (histories): the engine `Expr` of `facade.go` as a state machine, `Yae/Model/Engine.lean`
  (`Engine`, `Callable`, `Op`, `Engine.run`).  Proofs: `Yae/Proofs/EngineHistory.lean`.
  * `init_idempotent`, `init_effect`, `compile_state`, `invoke_state`: a compilation changes
    nothing in the engine but `inited` and the one-time appending of the built-ins; an invocation
    changes nothing.
  * `history_independent`: on an initialised engine, in ANY history of compilations and
    invocations the engine stays the same and every output is the output of that call on the
    engine alone (`Engine.single`); `history_independent_fresh`: the same from an engine that has
    not compiled yet, for invocations of the history's own Callables.
    The theorem is about histories WITHOUT registrations, because:
  * `registration_order_matters` (also `_mono`): the same four calls — one registration, two
    compilations of the same source, one invocation — give different results when the
    registration is moved across the FIRST compilation: `makeSureInit` appends the built-ins at
    the first compilation, after what was registered before it, so a polymorphic overload is tried
    before the built-in overloads in one history and after them in the other (and a monomorphic
    one is replaced by the built-in in one history and replaces it in the other).  Checked against
    the Go code: `facade.go` `makeSureInit`/`initFuns`, `types/env.go` `RegisterFun` (append /
    overwrite), `types/typecheck.go` `resolveOverloadedFun` (first overload that unifies).
    So a result depends on "the source and the environment's contents" AND on the registrations
    made so far and their order relative to the first compilation.
  * Registrations AFTER a compilation and the Callables compiled before it:
    `early_binding_ignores_engine` (`vm.Compile`, `closure.Compile`: the function is looked up
    while compiling; the Callable never looks at the engine's table again),
    `append_keeps_resolution`, `callable_stable_under_append` (any compiler: appending functions
    leaves every earlier Callable's outcome unchanged unless a MONOMORPHIC key one of its calls
    was resolved to is registered again), `late_binding_depends_on_compiler` (that exception is
    real and tells `interp.Interp` from the other compilers: the witness `!true`).

  PART 3 (output, determinism).  Proofs: `Yae/Proofs/EnginePrint.lean`, `EngineEval.lean`,
  `EngineCheck.lean`.
  * `output_only_from_print` / `invoke_output_only_from_print`: a tree all of whose calls are
    statically dispatched to functions other than the built-in `print` (`noPrint`) adds no
    `.print` event, whatever the environment, fuel, debug mode, and whether or not it fails.
    `print_prints`: `print(true)` writes the rendering once.
    `output_only_from_print_dynamic` / `invoke_output_only_from_print_dynamic`: the same for ANY
    tree, dynamically dispatched calls `e(args)` included (which function such a call runs is
    decided by a run-time VALUE): provided no value bound in the run-time environment holds, at
    any depth, a function referring to the built-in `print` (`quietVal`; the converters of
    `conv` produce no function values at all) and no static call is resolved to `print`
    (`noPrintD`).  The hypothesis on the environment cannot be dropped
    (`print_value_is_not_quiet`: an environment may bind `print` itself).
    (The host functions of the model, `HostBeh`, cannot print; a real host function can do
    anything — that is outside the model.)
  * `invoke_depends_on_bound_names`, `extra_bindings_irrelevant`, `evalSrc_deterministic`: the
    outcome (value or error, and all events) of invoking a compiled expression is a function of
    the bindings of the compile-time names only; extra run-time bindings change nothing.

  NOT theorems here, and why: "does not modify the host values, leaves the environments usable":
  the model is purely functional — environments and values are immutable data, `Engine.invoke`
  returns no environment, `Inherit` is a view (`types/env.go`, `val/env.go`: a new struct sharing
  the maps, never written by `Check`/the back ends) — so there is nothing to state beyond
  `history_independent`, in which the same `tenv`/`venv` may be used by any number of calls.
  That the Go back ends write to neither map is a property of the Go code that this model does not
  see (aliasing); it is outside what is proved here.
  Not modelled: user translators, the debug writer, `fnTbl` of the environments themselves.
-/
import Yae.Proofs.ValRelPerm
import Yae.Props.C18
import Yae.Proofs.EngineHistory
import Yae.Proofs.EngineCheck
import Yae.Proofs.EnginePrint
import Yae.Proofs.EngineQuiet
import Yae.Proofs.EngineWitness
namespace Yae.C13
open Yae

/-- `(*Val).String()` of a map does not depend on the order of its entries. -/
theorem render_map_perm {ty : Ty} {es₁ es₂ : EntryList} (hp : es₁.toList.Perm es₂.toList)
    (hnd : es₁.keyTexts.Nodup) : Val.render (.map ty es₁) = Val.render (.map ty es₂) :=
  render_map_perm' hp hnd

/-- `string(m)` of a map does not depend on the order of its entries. -/
theorem stringify_map_perm {ty : Ty} {es₁ es₂ : EntryList} (hp : es₁.toList.Perm es₂.toList)
    (hnd : es₁.keyTexts.Nodup) : Val.stringify (.map ty es₁) = Val.stringify (.map ty es₂) :=
  stringify_map_perm' hp hnd

example : C18.m1.stringify = C18.m2.stringify :=
  stringify_map_perm (by simp [EntryList.toList]; exact List.Perm.swap _ _ _)
    (by simp [EntryList.keyTexts, EntryList.toList])

example : C18.m1.render = C18.m2.render :=
  render_map_perm (by simp [EntryList.toList]; exact List.Perm.swap _ _ _)
    (by simp [EntryList.keyTexts, EntryList.toList])

/-- Key lookup (`m[k]`, `get`, `isset`) does not depend on the order of the entries. -/
theorem find?_perm {es₁ es₂ : EntryList} (hp : es₁.toList.Perm es₂.toList) (hnd : es₁.keys.Nodup)
    (t : Kind) (k : String) : es₁.find? t k = es₂.find? t k :=
  EntryList.find?_perm hp hnd t k

example (t : Kind) (k : String) :
    (EntryList.cons .str "\"a\"" (.bool true) (.cons .str "\"b\"" (.bool false) .nil)).find? t k =
    (EntryList.cons .str "\"b\"" (.bool false) (.cons .str "\"a\"" (.bool true) .nil)).find? t k :=
  find?_perm (by simp [EntryList.toList]; exact List.Perm.swap _ _ _)
    (by simp [EntryList.keys, EntryList.toList]) t k

/-- `==` on maps does not depend on the order of the entries. -/
theorem valEq_map_perm {ty : Ty} {es₁ es₂ : EntryList} (hp : es₁.toList.Perm es₂.toList)
    (hnd : es₁.keys.Nodup) (hself : valEq (.map ty es₁) (.map ty es₁) = true) :
    valEq (.map ty es₁) (.map ty es₂) = true :=
  valEq_map_perm' hp hnd hself

example : valEq C18.m1 C18.m2 = true :=
  valEq_map_perm (by simp [EntryList.toList]; exact List.Perm.swap _ _ _)
    (by simp [EntryList.keys, EntryList.toList]) (C18.valEq_refl C18.m1_wf C18.m1_selfEq)

/-- **Any depth.**  If `y` is `x` with the entries of any maps inside re-ordered (`PermEq`), then
both conversions to text agree. -/
theorem texts_invariant {x y : Val} (h : PermEq x y) :
    x.render = y.render ∧ x.stringify = y.stringify :=
  h.texts

/-- a list holding a map, and the same list with the map's entries swapped -/
example :
    (Val.list (.list (.map .str .bool)) (.cons C18.m1 .nil)).stringify =
    (Val.list (.list (.map .str .bool)) (.cons C18.m2 .nil)).stringify := by
  refine (texts_invariant (PermEq.list rfl ?_)).2
  intro i v w hv hw
  cases i with
  | zero =>
    simp [ValList.toList] at hv hw
    subst hv; subst hw
    exact PermEq.of_perm (by simp [EntryList.keyTexts, EntryList.toList])
      (by simp [EntryList.toList] <;> exact List.Perm.swap _ _ _)
  | succ i => simp [ValList.toList] at hv

/-- Rendering of objects depends only on the (field name, value) pairs. -/
theorem render_obj_perm {fs₁ fs₂ : FieldList} {vs₁ vs₂ : ValList}
    (hp : (objPairs fs₁ vs₁).Perm (objPairs fs₂ vs₂)) (hnd : fs₁.names.Nodup) :
    Val.render (.obj (.obj fs₁) vs₁) = Val.render (.obj (.obj fs₂) vs₂) :=
  render_obj_perm' hp hnd

example : C18.o1.render = C18.o2.render :=
  render_obj_perm (by simp [objPairs, FieldList.names, ValList.toList]; exact List.Perm.swap _ _ _)
    (by simp [FieldList.names])

/-- NOT invariant: `string()` of objects lists the fields in declaration order.  The two objects
are `==` and render alike, but `string()` tells them apart. -/
theorem stringify_obj_declaration_order :
    valEq C18.o1 C18.o2 = true ∧ C18.o1.render = C18.o2.render ∧
    C18.o1.stringify = "{a: true, b: x}" ∧ C18.o2.stringify = "{b: x, a: true}" :=
  ⟨C18.o1_eq_o2, by decide, by decide, by decide⟩

/-- The sort used for rendering really is canonical: any two permutations of a list with pairwise
distinct keys sort to the same list. -/
theorem sort_canonical {α : Type} (key : α → String) {l₁ l₂ : List α} (hp : l₁.Perm l₂)
    (hnd : (l₁.map key).Nodup) :
    sortBy (fun a b => decide (key a < key b)) l₁ = sortBy (fun a b => decide (key a < key b)) l₂ :=
  sortBy_eq_of_perm key hp hnd

example : sortBy (fun a b : String × Nat => decide (a.1 < b.1)) [("b", 1), ("a", 2)] =
    sortBy (fun a b : String × Nat => decide (a.1 < b.1)) [("a", 2), ("b", 1)] :=
  sort_canonical Prod.fst (List.Perm.swap _ _ _) (by simp)

/-! # PART 2: histories of API calls -/

open Yae.Facade Yae.EngineHistory Yae.EngineEval Yae.EngineCheck

/-! ## what a call does to the engine -/

/-- `makeSureInit` twice is `makeSureInit` once. -/
theorem init_idempotent (e : Engine) : e.init.init = e.init := EngineHistory.init_idempotent e

/-- What `makeSureInit` changes: `inited`, and — the first time, when built-ins are wanted — the
built-in operators and functions are APPENDED to what was registered before.  Nothing else. -/
theorem init_effect (e : Engine) :
    e.init.inited = true ∧ e.init.useBuiltIn = e.useBuiltIn ∧ e.init.backend = e.backend ∧
    e.init.ops = e.ops ++ (if !e.inited && e.useBuiltIn then builtinOps else []) ∧
    e.init.funs = e.funs ++ (if !e.inited && e.useBuiltIn then builtinDecls else []) :=
  ⟨init_inited e, init_useBuiltIn e, init_backend e, init_ops e, init_funs e⟩

example : Engine.new.init.funs = builtinDecls ∧ Engine.new.init.ops = builtinOps ∧
    Engine.new.init.init = Engine.new.init := ⟨rfl, rfl, rfl⟩

/-- A compilation (successful or not) leaves the engine initialised and otherwise as it was; an
initialised engine is not changed at all. -/
theorem compile_state (e : Engine) (times : List (String × Int)) (tenv : List (String × Ty))
    (src : String) :
    (e.compile times tenv src).1 = e.init ∧
    (e.inited = true → (e.compile times tenv src).1 = e) :=
  ⟨rfl, fun h => compile_of_inited h times tenv src⟩

/-- Compiling on the initialised engine is compiling on the engine. -/
theorem compile_after_init (e : Engine) (times : List (String × Int)) (tenv : List (String × Ty))
    (src : String) : e.init.compile times tenv src = e.compile times tenv src :=
  compile_init e times tenv src

/-- An invocation does not change the engine. -/
theorem invoke_state (e : Engine) (outs : List Out) (k : Nat) (c : Callable)
    (venv : List (String × Val)) (ext : Externs) :
    (e.step outs (.invoke k venv ext)).1 = e ∧ (e.step outs (.invokeC c venv ext)).1 = e := by
  refine ⟨?_, rfl⟩
  simp only [Engine.step]
  split <;> rfl

/-- What a Callable holds: the compile-time environment, the engine's function table and
compiler at the time, and the tree the pipeline `compileSrc` produced with that table. -/
theorem callable_records {e : Engine} {times : List (String × Int)} {tenv : List (String × Ty)}
    {src : String} {c : Callable} (h : (e.compile times tenv src).2 = .ok c) :
    c.tenv = tenv ∧ c.funs = e.init.funs ∧ c.backend = e.backend ∧
      compileSrc e.init.ops times (e.init.tenvOf tenv) src = .ok (c.ty, c.tree) :=
  compile_callable h

/-- The engine and the one-shot pipeline agree: compiling on `e` and invoking the Callable (on
the engine as the compilation left it, with a compiler that records no debug entries) is
`Facade.evalSrc` with the engine's operator and function tables — the function the other
properties (C12 `run_total`, …) are stated for. -/
theorem compile_invoke_eq_evalSrc {e : Engine} {times : List (String × Int)}
    {tenv : List (String × Ty)} {src : String} {c : Callable}
    (hc : (e.compile times tenv src).2 = .ok c) (hdbg : e.backend.dbg = false)
    (venv : List (String × Val)) (ext : Externs) :
    e.init.invoke c venv ext =
      evalSrc e.init.ops times (e.init.tenvOf tenv) ⟨venv, e.init.funs, ext⟩ src := by
  obtain ⟨ht, hf, hb, hsrc⟩ := compile_callable hc
  have htab : e.init.tableFor c = e.init.funs := by
    unfold Engine.tableFor
    split
    · rfl
    · exact hf
  unfold Engine.invoke evalSrc
  rw [hsrc, htab, hb, hdbg, ht]
  rfl

/-- … and a failed compilation is the failed `evalSrc`. -/
theorem compile_error_eq_evalSrc {e : Engine} {times : List (String × Int)}
    {tenv : List (String × Ty)} {src : String} {err : CompileErr}
    (hc : (e.compile times tenv src).2 = .error err) (ρ : REnv) :
    evalSrc e.init.ops times (e.init.tenvOf tenv) ρ src = (.error (.compile err), []) := by
  unfold Engine.compile at hc
  simp only at hc
  unfold evalSrc
  split at hc
  · next err' h => cases hc; rw [h]
  · cases hc

/-! ## repeating, recompiling, interleaving -/

/-- **History independence.**  On an initialised engine, whatever the history of compilations
and invocations (any sources, environments, Callables — also Callables of other engines —, in any
order, any number of times): the engine is never changed, and the output of the `i`-th call is
the output of that call performed on the engine alone (`Engine.single`: a compilation is that
compilation; "invoke the Callable of step `k`" is compiling the source of step `k` afresh and
invoking the result). -/
theorem history_independent {e : Engine} (he : e.inited = true) (ops : List Op)
    (h : ∀ op ∈ ops, op.isUse = true) :
    e.run ops = (e, (List.range ops.length).map (e.single ops)) :=
  run_use he ops h

/-- The same from an engine that has not compiled anything yet, for compilations and
invocations of the history's own Callables: the outputs are those on the initialised engine. -/
theorem history_independent_fresh (e : Engine) (ops : List Op)
    (h : ∀ op ∈ ops, isOwnUse op = true) :
    (e.run ops).2 = (List.range ops.length).map (e.init.single ops) :=
  run_use_fresh e ops h

/-- In particular: a source compiled twice, at any two places of such a history, and invoked on
the same environment gives the same outcome (value or error, and events). -/
theorem recompiled_same (e : Engine) (ops : List Op) (h : ∀ op ∈ ops, isOwnUse op = true)
    {i j k l : Nat} {times : List (String × Int)} {tenv : List (String × Ty)} {src : String}
    {venv : List (String × Val)} {ext : Externs}
    (hk : ops[k]? = some (.compile times tenv src)) (hl : ops[l]? = some (.compile times tenv src))
    (hi : ops[i]? = some (.invoke k venv ext)) (hj : ops[j]? = some (.invoke l venv ext))
    (hki : k < i) (hlj : l < j) :
    (e.run ops).2[i]? = (e.run ops).2[j]? := by
  have hil : i < ops.length := by
    rcases Nat.lt_or_ge i ops.length with h | h
    · exact h
    · rw [List.getElem?_eq_none h] at hi; cases hi
  have hjl : j < ops.length := by
    rcases Nat.lt_or_ge j ops.length with h | h
    · exact h
    · rw [List.getElem?_eq_none h] at hj; cases hj
  rw [history_independent_fresh e ops h]
  simp only [List.getElem?_map, List.getElem?_range hil, List.getElem?_range hjl, Option.map_some]
  simp only [Engine.single, hi, hj, hki, hlj, if_true, hk, hl]

/-- non-vacuity, concretely: on a new engine compile `!true`, invoke, invoke again — the engine
is the initialised new engine, both invocations return `false` -/
example : (Engine.new.run [.compile [] [] "!true", .invoke 0 [] {}, .invoke 0 [] {}]).1 =
      Engine.new.init ∧
    (Engine.new.run [.compile [] [] "!true", .invoke 0 [] {}, .invoke 0 [] {}]).2.map
      EngineWitness.outBool = [none, some false, some false] :=
  EngineWitness.three_steps

example : ∀ op ∈ EngineWitness.histThree, isOwnUse op = true := by decide

/-! ## … but not registrations -/

/-- **The order of registrations relative to the first compilation matters.**  Two histories on
a new engine made of the same four calls — register a polymorphic host overload
`string(a) : str` (returning `"host"`), compile `string(true)` twice, invoke the second
Callable —: with the registration BEFORE the first compilation the overload precedes the
built-in `string` in the table and is chosen (`"host"`); with the registration AFTER it the
built-ins, appended by the first compilation, precede it and the built-in is chosen (`"true"`). -/
theorem registration_order_matters :
    EngineWitness.histBefore.Perm EngineWitness.histAfter ∧
    (Engine.new.run EngineWitness.histBefore).2.map EngineWitness.outStr =
      [none, none, none, some "host"] ∧
    (Engine.new.run EngineWitness.histAfter).2.map EngineWitness.outStr =
      [none, none, none, some "true"] :=
  ⟨EngineWitness.same_calls, EngineWitness.before_host, EngineWitness.after_builtin⟩

/-- The same for a MONOMORPHIC function under the key of a built-in (`!(bool) : bool`, returning
`true`): registered before the first compilation it is replaced by the built-in (`!true` is
`false`), registered after it, it replaces the built-in (`!true` is `true`). -/
theorem registration_order_matters_mono :
    EngineWitness.histMonoBefore.Perm EngineWitness.histMonoAfter ∧
    (Engine.new.run EngineWitness.histMonoBefore).2.map EngineWitness.outBool =
      [none, none, none, some false] ∧
    (Engine.new.run EngineWitness.histMonoAfter).2.map EngineWitness.outBool =
      [none, none, none, some true] :=
  ⟨List.Perm.swap _ _ _, EngineWitness.mono_before, EngineWitness.mono_after⟩

/-! ## registrations after a compilation -/

/-- What `RegisterFun` does to the table. -/
theorem registerFun_funs (e : Engine) (d : FunDecl) :
    (e.registerFun d).funs = e.funs ++ (match d.ty with | .fn _ _ _ => [d] | _ => []) ∧
    (e.registerFun d).ops = e.ops ∧ (e.registerFun d).inited = e.inited ∧
    (e.registerFun d).backend = e.backend := by
  cases h : d.ty <;> simp [Engine.registerFun, h]

/-- A Callable compiled by `vm.Compile` / `closure.Compile` / `closure.DebugCompile` never looks
at an engine's table: its outcome is the same on EVERY engine (in particular after any
registrations). -/
theorem early_binding_ignores_engine (e₁ e₂ : Engine) {c : Callable}
    (h : c.backend.late = false) (venv : List (String × Val)) (ext : Externs) :
    e₁.invoke c venv ext = e₂.invoke c venv ext := by
  unfold Engine.invoke Engine.tableFor
  rw [h]; rfl

/-- Appending to the table: a monomorphic key is REPLACED, a polymorphic key is EXTENDED AT THE
END; hence a resolved call keeps referring to the same function, unless it is a monomorphic call
(`index < 0`) and a function with the same monomorphic key is appended. -/
theorem append_keeps_resolution (fs ex : List FunDecl) (key : String) :
    lookupMono (fs ++ ex) key = (lookupMono ex key).or (lookupMono fs key) ∧
    lookupPoly (fs ++ ex) key = lookupPoly fs key ++ lookupPoly ex key ∧
    (∀ (i : Int) (d : FunDecl), resolveStatic fs key i = some d →
      (i < 0 → lookupMono ex key = none) → resolveStatic (fs ++ ex) key i = some d) ∧
    (∀ (i : Int) (d' : FunDecl), i < 0 → lookupMono ex key = some d' →
      resolveStatic (fs ++ ex) key i = some d') :=
  ⟨lookupMono_append fs ex key, lookupPoly_append fs ex key,
    fun _ _ h hm => resolveStatic_append ex h hm,
    fun _ _ hi hm => resolveStatic_append_mono ex hi hm⟩

/-- **Registrations after a compilation do not disturb the Callable** — whatever the compiler:
if the engine's table has since grown by `ex` (`e'.funs = c.funs ++ ex`) and `ex` registers no
monomorphic key that a call of the tree was resolved to (`NoMonoClash`; e.g. `ex` is all
polymorphic), invoking on the grown engine gives the outcome of invoking on the engine as it was
when the Callable was compiled. -/
theorem callable_stable_under_append {e e' : Engine} {times : List (String × Int)}
    {tenv : List (String × Ty)} {src : String} {c : Callable}
    (hc : (e.compile times tenv src).2 = .ok c) {ex : List FunDecl}
    (hfuns : e'.funs = c.funs ++ ex) (hno : NoMonoClash ex c.tree)
    (venv : List (String × Val)) (ext : Externs) :
    e'.invoke c venv ext = e.init.invoke c venv ext := by
  have hcl := callable_closed hc
  have hcf : c.funs = e.init.funs := (compile_callable hc).2.1
  refine invoke_congr hcl (fun _ _ _ => rfl) ?_
  unfold Engine.tableFor
  cases c.backend.late with
  | false => exact All.mono (fun _ _ => trivial) (fun _ _ _ => rfl) (fun h => h) _ hcl
  | true =>
    simp only [if_true]
    rw [hfuns, ← hcf]
    exact append_resolves_alike hcl hno

/-- in particular: registering polymorphic functions -/
theorem callable_stable_under_poly_registrations {e e' : Engine} {times : List (String × Int)}
    {tenv : List (String × Ty)} {src : String} {c : Callable}
    (hc : (e.compile times tenv src).2 = .ok c) {ex : List FunDecl}
    (hfuns : e'.funs = c.funs ++ ex) (hpoly : ∀ d ∈ ex, d.key.2 = false)
    (venv : List (String × Val)) (ext : Externs) :
    e'.invoke c venv ext = e.init.invoke c venv ext :=
  callable_stable_under_append hc hfuns (noMonoClash_of_poly hpoly (callable_closed hc)) venv ext

/-- **… and the exception is real, and depends on the compiler.**  Choose the compiler, compile
`!true`, register a host `!(bool) : bool` returning `true`, invoke the Callable compiled before:
with `vm.Compile` it still runs the built-in (`false`), with `interp.Interp` it runs the newly
registered function (`true`). -/
theorem late_binding_depends_on_compiler :
    (Engine.new.run (EngineWitness.histLate .vm)).2.map EngineWitness.outBool =
      [none, none, none, some false] ∧
    (Engine.new.run (EngineWitness.histLate .interp)).2.map EngineWitness.outBool =
      [none, none, none, some true] :=
  ⟨EngineWitness.late_vm, EngineWitness.late_interp⟩

/-! # PART 3: output and determinism -/

/-- **Only `print` prints.**  Evaluating a tree in which every call is statically dispatched to
a function other than the built-in `print` (`noPrint`, relative to the run-time table) adds no
line of standard output to the event log: from every log, with every fuel, in debug mode or not,
whether the evaluation succeeds or fails. -/
theorem output_only_from_print (fuel : Nat) (dbg : Bool) (ρ : REnv) (e : Expr)
    (h : noPrint ρ.funs e = true) (log : List Event) (hl : ∀ ev ∈ log, isPrint ev = false) :
    ∀ ev ∈ (eval fuel dbg ρ e log).2, isPrint ev = false :=
  eval_quiet fuel dbg ρ e h log hl

/-- The same for an invocation through the engine. -/
theorem invoke_output_only_from_print (e : Engine) (c : Callable) (venv : List (String × Val))
    (ext : Externs) (h : noPrint (e.tableFor c) c.tree = true) :
    ∀ ev ∈ (e.invoke c venv ext).2, isPrint ev = false := by
  unfold Engine.invoke
  split
  · intro ev hev; cases hev
  · have hq := runEval_quiet c.backend.dbg ⟨venv, e.tableFor c, ext⟩ c.tree h
    split
    · next v evs hr => rw [hr] at hq; exact hq
    · next f evs hr => rw [hr] at hq; exact hq

/-- non-vacuity: the compiled `!true` contains no call of `print` … -/
example (p : Pos) (col : Int) (cp bp : Pos) :
    noPrint builtinDecls (EngineWitness.notTrue p col cp bp) = true := by
  have hr : resolveStatic builtinDecls "λ ! (bool)" (-1) = some EngineWitness.builtinNot := by rfl
  have hne : ("λ ! (bool)" != "") = true := by decide
  simp only [EngineWitness.notTrue, noPrint, noPrintL, hr, hne, EngineWitness.builtinNot]
  decide

/-- … and `print` does print: the compiled `print(true)` (it is what `Engine.new` compiles)
returns `true` and writes the rendering of `true`, once — and `noPrint` is false for it. -/
theorem print_prints :
    ∃ p col cp bp, (Engine.new.compile [] [] "print(true)").2 =
        .ok ⟨[], .bool, EngineWitness.printTrue p col cp bp, builtinDecls, .vm⟩ ∧
      (∀ ext, runEval false ⟨[], builtinDecls, ext⟩ (EngineWitness.printTrue p col cp bp) =
        (.ok (.bool true), [.print (Val.bool true).render])) ∧
      noPrint builtinDecls (EngineWitness.printTrue p col cp bp) = false := by
  obtain ⟨p, col, cp, bp, h⟩ := EngineWitness.compile_print
  refine ⟨p, col, cp, bp, h, fun ext => EngineWitness.run_print ext p col cp bp, ?_⟩
  have hr : resolveStatic builtinDecls "∀.λ print 1" 0 = some EngineWitness.builtinPrint := by rfl
  have hp : refPrints (.builtin 48) = true := by decide
  simp [EngineWitness.printTrue, noPrint, hr, EngineWitness.builtinPrint, hp]

/-- **Only `print` prints — dynamic dispatch included.**  For ANY tree: if no value bound in the
run-time environment holds (at any depth) a function referring to the built-in `print`, and no
statically dispatched call is resolved to `print`, then the evaluation adds no line of standard
output — and the value it returns again holds no such function. -/
theorem output_only_from_print_dynamic (fuel : Nat) (dbg : Bool) (ρ : REnv) (e : Expr)
    (hρ : ∀ p ∈ ρ.vars, quietVal p.2 = true) (h : noPrintD ρ.funs e = true)
    (log : List Event) (hl : ∀ ev ∈ log, isPrint ev = false) :
    (∀ ev ∈ (eval fuel dbg ρ e log).2, isPrint ev = false) ∧
    ∀ v, (eval fuel dbg ρ e log).1 = .ok v → quietVal v = true :=
  eval_quietD fuel dbg ρ e hρ h log hl

/-- The same for an invocation through the engine. -/
theorem invoke_output_only_from_print_dynamic (e : Engine) (c : Callable)
    (venv : List (String × Val)) (ext : Externs) (hv : ∀ p ∈ venv, quietVal p.2 = true)
    (h : noPrintD (e.tableFor c) c.tree = true) :
    ∀ ev ∈ (e.invoke c venv ext).2, isPrint ev = false := by
  unfold Engine.invoke
  split
  · intro ev hev; cases hev
  · have hq := runEval_quietD c.backend.dbg ⟨venv, e.tableFor c, ext⟩ c.tree hv h
    split
    · next v evs hr => rw [hr] at hq; exact hq
    · next f evs hr => rw [hr] at hq; exact hq

/-- `output_only_from_print` is the special case without dynamic calls (no hypothesis on the
environment is needed then). -/
theorem noPrint_noPrintD (funs : List FunDecl) (e : Expr) (h : noPrint funs e = true) :
    noPrintD funs e = true := noPrintD_of_noPrint funs e h

/-- non-vacuity: an environment binding an object that holds a host function VALUE, and the
dynamically dispatched call `h.f(true)` of it -/
example :
    let fTy : Ty := .fn "f" (.cons .bool .nil) .bool
    let hTy : Ty := .obj (.cons "f" fTy .nil)
    let hVal : Val := .obj hTy (.cons (.fn fTy (.host "f" (.constBool true)) false) .nil)
    let tree : Expr := .call Pos.unknown 0 (.member Pos.unknown 0 (.ident Pos.unknown "h") "f"
      Pos.unknown (some hTy) 0) (.cons (.bool Pos.unknown true) .nil) (some fTy) "" (-1)
    (∀ p ∈ [("h", hVal)], quietVal p.2 = true) ∧ noPrintD builtinDecls tree = true ∧
      noPrint builtinDecls tree = false := by
  decide

/-- the hypothesis on the environment cannot be dropped: a run-time environment may bind the
built-in `print` itself as a function value (then a dynamic call of it prints, through `print`) -/
theorem print_value_is_not_quiet (ty : Ty) (l : Bool) : quietVal (.fn ty (.builtin 48) l) = false := by
  simp only [quietVal]
  decide

/-- **The outcome depends on the bindings of the compile-time names only.**  For a Callable an
engine returned: two run-time environments that bind every name of the compile-time environment
alike get the same verdict of the environment check and the same run — value or error, and all
events — on any engine. -/
theorem invoke_depends_on_bound_names {e e' : Engine} {times : List (String × Int)}
    {tenv : List (String × Ty)} {src : String} {c : Callable}
    (hc : (e.compile times tenv src).2 = .ok c) {venv₁ venv₂ : List (String × Val)}
    (hv : ∀ x t, (x, t) ∈ tenv → lookupVal venv₁ x = lookupVal venv₂ x) (ext : Externs) :
    e'.invoke c venv₁ ext = e'.invoke c venv₂ ext := by
  have hcl := callable_closed hc
  have ht : c.tenv = tenv := (compile_callable hc).1
  exact invoke_congr hcl (fun x t hm => hv x t (ht ▸ hm))
    (All.mono (fun _ _ => trivial) (fun _ _ _ => rfl) (fun h => h) _ hcl)

/-- **Extra run-time bindings are irrelevant**: bindings for names the compile-time environment
does not know, placed anywhere among the others, change neither the verdict nor the run. -/
theorem extra_bindings_irrelevant {e e' : Engine} {times : List (String × Int)}
    {tenv : List (String × Ty)} {src : String} {c : Callable}
    (hc : (e.compile times tenv src).2 = .ok c) (venv pre post : List (String × Val))
    (hpre : ∀ p ∈ pre, ∀ t, (p.1, t) ∉ tenv) (hpost : ∀ p ∈ post, ∀ t, (p.1, t) ∉ tenv)
    (ext : Externs) :
    e'.invoke c (pre ++ venv ++ post) ext = e'.invoke c venv ext := by
  refine invoke_depends_on_bound_names hc (fun x t hm => ?_) ext
  unfold lookupVal
  have h1 : pre.find? (fun p => p.1 == x) = none := by
    rw [List.find?_eq_none]
    intro p hp hpx
    simp only [beq_iff_eq] at hpx
    exact hpre p hp t (hpx ▸ hm)
  have h2 : post.find? (fun p => p.1 == x) = none := by
    rw [List.find?_eq_none]
    intro p hp hpx
    simp only [beq_iff_eq] at hpx
    exact hpost p hp t (hpx ▸ hm)
  rw [List.find?_append, List.find?_append, h1, h2]
  simp

/-- The same for the one-shot pipeline `evalSrc` (`yae.Eval`): with the same operator and
function tables and externs, environments that agree on the compile-time names give the same
outcome. -/
theorem evalSrc_deterministic (ops : List Operator) (times : List (String × Int)) (Γ : TEnv)
    (ρ₁ ρ₂ : REnv) (src : String) (hf : ρ₁.funs = ρ₂.funs) (hx : ρ₁.ext = ρ₂.ext)
    (hv : ∀ x t, (x, t) ∈ Γ.vars → ρ₁.lookupVar x = ρ₂.lookupVar x) :
    evalSrc ops times Γ ρ₁ src = evalSrc ops times Γ ρ₂ src := by
  unfold evalSrc
  cases hc : compileSrc ops times Γ src with
  | error err => rfl
  | ok r =>
    obtain ⟨T, e'⟩ := r
    have hcl := compileSrc_closed hc
    have henv : envCheck Γ.vars ρ₁.vars = envCheck Γ.vars ρ₂.vars := envCheck_congr hv
    have hag : Agree ρ₁ ρ₂ e' :=
      All.mono (fun x hx' => by obtain ⟨t, ht⟩ := hx'; exact hv x t ht)
        (fun r i _ => by rw [hf]) (fun h => h) e' hcl
    simp only [henv, runEval_congr hx hag]

#print axioms render_map_perm
#print axioms stringify_map_perm
#print axioms find?_perm
#print axioms valEq_map_perm
#print axioms texts_invariant
#print axioms render_obj_perm
#print axioms stringify_obj_declaration_order
#print axioms sort_canonical
#print axioms init_idempotent
#print axioms init_effect
#print axioms compile_state
#print axioms invoke_state
#print axioms callable_records
#print axioms compile_invoke_eq_evalSrc
#print axioms compile_error_eq_evalSrc
#print axioms history_independent
#print axioms history_independent_fresh
#print axioms recompiled_same
#print axioms registration_order_matters
#print axioms registration_order_matters_mono
#print axioms early_binding_ignores_engine
#print axioms append_keeps_resolution
#print axioms callable_stable_under_append
#print axioms callable_stable_under_poly_registrations
#print axioms late_binding_depends_on_compiler
#print axioms output_only_from_print
#print axioms invoke_output_only_from_print
#print axioms print_prints
#print axioms output_only_from_print_dynamic
#print axioms invoke_output_only_from_print_dynamic
#print axioms print_value_is_not_quiet
#print axioms invoke_depends_on_bound_names
#print axioms extra_bindings_irrelevant
#print axioms evalSrc_deterministic

end Yae.C13
