/-
  C14 (partial by nature, see DESIGN §10): what a model can carry about concurrency.

  (i)  `race_free`: a lockset-style theorem over abstract access traces — if every access to a
       shared cell obeys the cell's discipline (read-only, atomic-only, or guarded by one named
       lock), no two accesses of different threads form a data race.
  (ii) the inventory of write sites to state shared between API calls is REGENERATED from /repo
       (`Gen.sharedWrites`, harness/cmd/extract/shared.go) and must equal the list below, every
       entry of which is guarded by a mutex, atomic, or not reachable from the API;
  (iii) the only cross-engine shared state on the compile path is the type-variable counter, and
       the checker's verdict does not depend on its value (`C05.counter_irrelevant_partial`):
       whatever fresh values concurrent compilations draw, each has the outcome it has alone.

  The Go memory model, the scheduler and real interleavings are not modelled: the `race`
  stress run under the race detector is the search for a failing schedule.
-/
import Yae.Gen.Shared
import Yae.Props.C05
namespace Yae.C14

inductive AKind where
  | read | write | atomic
  deriving DecidableEq, Repr

/-- one access of a thread to a shared cell, with the locks held at that moment -/
structure Access where
  thread : Nat
  cell : String
  kind : AKind
  locks : List String

/-- different threads, same cell, at least one plain write or a mix of plain and atomic -/
def Conflicting (a b : Access) : Prop :=
  a.thread ≠ b.thread ∧ a.cell = b.cell ∧
    (a.kind = .write ∨ b.kind = .write ∨ (a.kind = .atomic ∧ b.kind = .read) ∨ (a.kind = .read ∧ b.kind = .atomic))

def Synchronised (a b : Access) : Prop :=
  (a.kind = .atomic ∧ b.kind = .atomic) ∨ ∃ l, l ∈ a.locks ∧ l ∈ b.locks

def Race (a b : Access) : Prop := Conflicting a b ∧ ¬ Synchronised a b

inductive Discipline where
  | readOnly                 -- written only before any goroutine is started (package init)
  | atomicOnly               -- every access is a sync/atomic operation
  | lockedBy (l : String)    -- every access holds this lock

def Obeys (d : String → Discipline) (a : Access) : Prop :=
  match d a.cell with
  | .readOnly => a.kind = .read
  | .atomicOnly => a.kind = .atomic
  | .lockedBy l => l ∈ a.locks

/-- Any trace all of whose accesses obey the per-cell discipline is free of data races. -/
theorem race_free (d : String → Discipline) (tr : List Access) (h : ∀ a ∈ tr, Obeys d a) :
    ∀ a ∈ tr, ∀ b ∈ tr, ¬ Race a b := by
  intro a ha b hb ⟨⟨_, hcell, hk⟩, hns⟩
  have oa := h a ha
  have ob := h b hb
  unfold Obeys at oa ob
  rw [← hcell] at ob
  cases hd : d a.cell with
  | readOnly =>
    rw [hd] at oa ob
    rcases hk with hk | hk | ⟨hk, _⟩ | ⟨_, hk⟩ <;> simp_all
  | atomicOnly =>
    rw [hd] at oa ob
    exact hns (Or.inl ⟨oa, ob⟩)
  | lockedBy l =>
    rw [hd] at oa ob
    exact hns (Or.inr ⟨l, oa, ob⟩)

/-- non-vacuity: two threads bumping an atomic counter and reading a table under a lock -/
example : ∀ a ∈ ([⟨1, "n", .atomic, []⟩, ⟨2, "n", .atomic, []⟩, ⟨1, "tz", .write, ["mu"]⟩, ⟨2, "tz", .read, ["mu"]⟩] : List Access),
    Obeys (fun c => if c = "n" then .atomicOnly else .lockedBy "mu") a := by
  intro a ha
  simp only [List.mem_cons, List.not_mem_nil, or_false] at ha
  rcases ha with rfl | rfl | rfl | rfl <;> simp [Obeys]

/-- The write sites to shared state the code contains now (regenerated) are exactly these:
the timelib zone cache under its mutex, the type-variable counter through sync/atomic, and the
node counter of the DOT debug printer (`parser/ast/dot.go`), which no API entry point reaches. -/
def expectedSharedWrites : List (String × String × String) := [
  ("parser/ast", "n", "plain"),
  ("timelib", "tzCache", "mutex"),
  ("types", "n", "atomic")]

/-- packages whose plain writes are not reachable from Eval / Compile / Callable / Debug -/
def unreachableFromApi : List String := ["parser/ast"]

/-- The inventory is compared by PACKAGE and GUARD (the variable names are regenerated too, for
the reader, but a renamed variable is the same cell): the same shared cells, each with the same
discipline. -/
theorem inventory_tie :
    Gen.sharedWrites.map (fun s => (s.1, s.2.2)) = expectedSharedWrites.map (fun s => (s.1, s.2.2)) := by
  decide

theorem inventory_disciplined :
    ∀ s ∈ Gen.sharedWrites, s.2.2 = "mutex" ∨ s.2.2 = "atomic" ∨ s.1 ∈ unreachableFromApi := by decide

/-- Whatever counter values concurrent compilations observe, a compilation that is accepted
with type `T` alone is accepted with `T` (or runs out of fuel, which `C17.unify_fuel_sufficient`
excludes for the fuel in use) — the outcome does not depend on the shared counter. -/
theorem outcome_independent_of_counter {Γ : TEnv} {c c' : Nat} {e e' : Expr} {T : Ty}
    (hΓ : EnvOK Γ) (h : check Γ c e = .ok (T, e', c')) (c₂ : Nat) :
    check Γ c₂ e = .error .fuel ∨ ∃ e'' c'', check Γ c₂ e = .ok (T, e'', c'') :=
  C05.counter_irrelevant_partial hΓ h c₂

#print axioms race_free
#print axioms inventory_tie
#print axioms inventory_disciplined
#print axioms outcome_independent_of_counter

end Yae.C14
