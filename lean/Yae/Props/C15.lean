/-
  C15. "Converting a Go value yields a well-formed value whose type equals the type reported for
  that same Go value, and whose contents equal the original (numbers as doubles, strings,
  booleans, instants, sequence order, map entries, struct fields under their tag names). For Go
  values of one static type without interface-typed parts whose nil-able parts are non-nil or
  declared optional, the resulting type is the same for every value, so an expression compiled
  against one sample of a Go type accepts every other value of that type; unsupported or
  inconsistent data (nil at top level, mixed-type interface slices, unsupported kinds, nesting
  beyond the depth limit) is reported as an error."

  Model: `Yae/Model/Conv.lean` — `GoType`/`GoVal` mirror what `reflect` shows of host data,
  `valOf g lv` = `conv.valOf(rv, lv)`, `typeOf t lv` = `conv.typeOf(rt, lv)` (static),
  `typeOfRV g` = `conv.TypeOf(v)` ("the type reported for that same Go value": the type of the
  converted value when the conversion succeeds, else the static type).
  Proofs: `Yae.Proofs.ConvVal`, `Yae.Proofs.ConvAgree`, `Yae.Proofs.ConvContent*`.

  * well-formed: `valOf_wf` (DEEP well-formedness `Yae.Sound.WF`, the invariant type soundness
    C01/C02 needs of environment values), `valOf_noNil`, `typeOf_wf`, `typeOfRV_wf`.
  * "type equals the type reported": `typeOfRV_agree` (by definition of `conv.TypeOf`).
  * "the same for every value": `typeOf_agree_partial` — the own type of a converted value equals
    (`types.Equals`) the STATIC type of its Go type, for values `Plain g t` (conforming to their
    static type `t`, no interface-typed part, nil struct fields tagged `maybe`); hence
    `sample_independent` / `shape_determines_type`: any two such values of one Go type convert to
    values of equal types.  Without the condition on nil fields it is false
    (`nil_field_counterexample`).  Interface-typed parts need no separate exclusion in the
    statement: a Go type with an interface-typed part has no static type (`typeOf … = error`).
  * "contents equal the original": `Yae/Spec/ConvContent.lean` defines one abstract content tree
    (`Content`: numbers, strings, booleans, instants, sequences, keyed entries, named fields,
    absent / present) with `GoVal.content` (what the Go value is: integers as the double
    `float64(·)` gives — by the model's own `intToFloat` / `natToFloat`, so the ROUNDING is not
    specified a second time —, pointers and interfaces transparent, map entries under the yae key
    text of their Go key, struct fields under their TAG names, a nil field `absent`, a non-nil
    `maybe` field `present`) and `Val.content` (what the yae value holds).
      - `content_defined`: a Go value that converts has a content;
      - `content_general` (no hypothesis, every shape, any nesting):
        `v.content = c.norm`, where `norm` inserts the entries of every map one by one
        (`m.V[key] = v`): of several Go entries whose keys convert to ONE yae key the first one's
        position and the last one's value remain;
      - `content_exact`: converted keys pairwise distinct in every map inside ⇒ `v.content = c`
        (sequence order, every map entry, every struct field under its tag name, nested);
      - `content_faithful` / `content_order_irrelevant`: the same up to the order of map entries
        (`≈`, `Content.Equiv`: an equivalence relation that contains every permutation of an
        entry list and relates only entry lists with the same keys) — the order in which the
        model lists the entries of a Go map (and of a yae map) is an artefact of the model;
      - the distinctness hypothesis cannot be dropped: `collision_counterexample`
        (`map[int64]string{1<<53: "a", 1<<53+1: "b"}` converts, without an error, to a ONE-entry
        map; which value survives depends on Go's iteration order: `collision_order_dependent`);
      - `string_keys_distinct`: for maps with Go string keys the hypothesis holds by itself;
      - through the model's accessors: `content_map_lookup` (`EntryList.find?`),
        `content_struct_lookup` (`objGet?`), `content_scalars`, `content_slice`;
      - environments: `env_content`, `env_content_exact`, `env_binds`, `env_binds_struct`
        (`conv.ValEnvOf` binds every map entry / every struct field name to the content of its
        value).
    NOT skipped by `conv`, hence not by `GoVal.content`: unexported struct fields (they are
    converted like the others; only a `time.Time` behind one fails).  Not covered by the content
    tree: the TYPE annotations of the converted value (they are the subject of `valOf_wf` and of
    the agreement theorems).
  * "an expression compiled against one sample accepts every other value": `sample_accepts`,
    `sample_accepts_struct` — `envCheck (typeEnvOf g₁) (valEnvOf g₂) = ok` for plain values of
    one Go type; without `Plain`: `sample_rejected_counterexample`.
    `Plain` against the wording "nil-able parts non-nil or declared optional": `Plain` is the formal
    reading of the wording (conforming to the static type, no interface-typed part, a nil
    struct field only if tagged `maybe`, no nil pointer elsewhere); it admits in addition nil slices / nil maps in other
    positions (they convert only directly behind a pointer, as the empty list / map, which has
    the static type: `plain_nil_slice_behind_pointer`).
  * errors: `error_nil_top`, `error_nil_inside`, `error_unsupported_value`,
    `error_unsupported_type`, `error_mixed`, `error_depth`, `error_depth_nested`.
-/
import Yae.Proofs.ConvContentLookup
namespace Yae.C15
open Yae Yae.Sound Yae.ConvVal

/-! ## well-formed -/

/-- every converted value is deeply well formed -/
theorem valOf_wf {g : GoVal} {lv : Nat} {ro : Bool} {v : Val} (h : valOf g lv ro = .ok v) :
    WF v = true := ConvVal.valOf_wf h

/-- … and has no absent (Go nil) component -/
theorem valOf_noNil {g : GoVal} {lv : Nat} {ro : Bool} {v : Val} (h : valOf g lv ro = .ok v) :
    noNil v = true := WF_noNil v (valOf_wf h)

/-- a struct `{A int; B *string "yae:\"b,maybe\""}` with `B` nil converts -/
example : valOf (.struct (.cons "A" "" (.int .int) true
      (.cons "B" "yae:\"b,maybe\"" (.ptr .string) true .nil))
    (.cons (.int .int 7) (.cons (.ptrNil .string) .nil))) 0 =
    .ok (.obj (.obj (.cons "A" .num (.cons "b" (.maybe .str) .nil)))
      (.cons (.num (intToFloat 7)) (.cons (.nothing .str) .nil))) := by rfl

/-- every statically reported type is well formed (distinct field names, keyable map keys) -/
theorem typeOf_wf {t : GoType} {lv : Nat} {T : Ty} (h : typeOf t lv = .ok T) : T.wf = true :=
  ConvVal.typeOf_wf t lv T h

example : typeOf (.map .string (.slice .float64)) 0 = .ok (.map .str (.list .num)) := by rfl

/-- every type `conv.TypeOf` reports is well formed -/
theorem typeOfRV_wf {g : GoVal} {T : Ty} (h : typeOfRV g = .ok T) : T.wf = true := by
  unfold typeOfRV at h
  split at h
  · next x hx => cases h; exact WF_typeOf_wf x (valOf_wf hx)
  · split at h
    · cases h
    · exact typeOf_wf h

example : typeOfRV (.slice .string .nil) = .ok (.list .str) := by rfl

/-! ## the type reported for the same value -/

/-- `conv.TypeOf(v)` is the own type of `conv.ValOf(v)` whenever the conversion succeeds -/
theorem typeOfRV_agree {g : GoVal} {T : Ty} {v : Val} (hT : typeOfRV g = .ok T)
    (hv : valOf g 0 = .ok v) : T = v.typeOf := by
  unfold typeOfRV at hT
  rw [hv] at hT
  cases hT; rfl

example : typeOfRV (.bool true) = .ok .bool ∧ valOf (.bool true) 0 = .ok (.bool true) :=
  ⟨by rfl, by rfl⟩

/-! ## the same type for every value of one Go type -/

/-- **static agreement, partial.**  For a value that conforms to its static type `t`, has no
interface-typed part and whose nil struct fields are tagged `maybe` (`Plain g t`), the own type
of the converted value is `types.Equals` to the static type of `t`.

Full statement (FALSE, see `nil_field_counterexample`):
  `g.goType? = some t → typeOf t 0 = .ok T → valOf g 0 = .ok v → tyEq T v.typeOf = true`.
What is missing without `Plain`: a nil field that is not tagged `maybe` is converted to an absent
optional although the static field type is not optional. -/
theorem typeOf_agree_partial {g : GoVal} {t : GoType} {T : Ty} {v : Val} (hp : Plain g t)
    (hT : typeOf t 0 = .ok T) (hv : valOf g 0 = .ok v) : tyEq T v.typeOf = true :=
  agreeU g t 0 0 false T v hp hT (valOfChecks_ok hv).2.2

/-- `Plain` determines the static type: it is the value's `reflect` type -/
theorem plain_goType {g : GoVal} {t : GoType} (hp : Plain g t) : g.goType? = some t :=
  Plain.goType g t hp

/-- non-vacuity: `[]struct{A int; B *string "yae:\"b,maybe\""}{{7, nil}}` is plain -/
example : Plain
    (.slice (.struct (.cons "A" "" (.int .int) true
        (.cons "B" "yae:\"b,maybe\"" (.ptr .string) true .nil)))
      (.cons (.struct (.cons "A" "" (.int .int) true
          (.cons "B" "yae:\"b,maybe\"" (.ptr .string) true .nil))
        (.cons (.int .int 7) (.cons (.ptrNil .string) .nil))) .nil))
    (.slice (.struct (.cons "A" "" (.int .int) true
        (.cons "B" "yae:\"b,maybe\"" (.ptr .string) true .nil)))) := by
  simp only [Plain, PlainList, PlainFields, GoVal.isNil, Bool.false_eq_true, if_false, if_true,
    true_and, and_true]
  rfl

/-- the condition on nil fields cannot be dropped: `struct{P *int}{nil}` has the static type
`{P: num}` but converts to a value of type `{P: maybe[num]}` -/
theorem nil_field_counterexample :
    let fs : GoFieldList := .cons "P" "" (.ptr (.int .int)) true .nil
    let g : GoVal := .struct fs (.cons (.ptrNil (.int .int)) .nil)
    g.goType? = some (.struct fs) ∧
    typeOf (.struct fs) 0 = .ok (.obj (.cons "P" .num .nil)) ∧
    valOf g 0 = .ok (.obj (.obj (.cons "P" (.maybe .num) .nil)) (.cons (.nothing .num) .nil)) ∧
    tyEq (.obj (.cons "P" .num .nil)) (.obj (.cons "P" (.maybe .num) .nil)) = false :=
  ⟨rfl, by rfl, by rfl, by decide⟩

/-- **one sample stands for the type**: two plain values of the same Go type convert to values
of equal types (in both directions), so an environment built from one is accepted by an
expression compiled against the other (`Yae.C07.accept_iff` asks exactly for this equality). -/
theorem sample_independent {g1 g2 : GoVal} {t : GoType} {T : Ty} {v1 v2 : Val}
    (h1 : Plain g1 t) (h2 : Plain g2 t) (hT : typeOf t 0 = .ok T)
    (hv1 : valOf g1 0 = .ok v1) (hv2 : valOf g2 0 = .ok v2) :
    tyEq v1.typeOf v2.typeOf = true := by
  have a1 := typeOf_agree_partial h1 hT hv1
  have a2 := typeOf_agree_partial h2 hT hv2
  have wT := typeOf_wf hT
  have w1 := WF_typeOf_wf v1 (valOf_wf hv1)
  rw [tyEq_symm' wT w1] at a1
  exact tyEq_trans' w1 wT a1 a2

/-- the same under the name C07 refers to: `GoType` carries no type NAMES (only kinds, element
types, field names/tags), so "equally shaped" Go types are the same `GoType` -/
theorem shape_determines_type {g1 g2 : GoVal} {t : GoType} {T : Ty} {v1 v2 : Val}
    (h1 : Plain g1 t) (h2 : Plain g2 t) (hT : typeOf t 0 = .ok T)
    (hv1 : valOf g1 0 = .ok v1) (hv2 : valOf g2 0 = .ok v2) :
    tyEq v1.typeOf v2.typeOf = true ∧ tyEq v2.typeOf v1.typeOf = true :=
  ⟨sample_independent h1 h2 hT hv1 hv2, sample_independent h2 h1 hT hv2 hv1⟩

/-- non-vacuity: an empty and a non-empty `[]string` -/
example : Plain (.slice .string .nil) (.slice .string) ∧
    Plain (.slice .string (.cons (.string "a") .nil)) (.slice .string) ∧
    typeOf (.slice .string) 0 = .ok (.list .str) ∧
    valOf (.slice .string .nil) 0 = .ok (.list (.list .str) .nil) ∧
    valOf (.slice .string (.cons (.string "a") .nil)) 0 =
      .ok (.list (.list .str) (.cons (.str "a") .nil)) := by
  refine ⟨?_, ?_, by rfl, by rfl, by rfl⟩ <;> simp [Plain, PlainList]

/-! ## contents -/

/-- numbers as doubles, strings, booleans, instants: unchanged -/
theorem content_scalars (s : String) (b : Bool) (x : Float) (is32 : Bool) (t : TimeV)
    (k : IntKind) (i : Int) (u : UintKind) (n : Nat) :
    valOf (.string s) 0 = .ok (.str s) ∧ valOf (.bool b) 0 = .ok (.bool b) ∧
    valOf (.float is32 x) 0 = .ok (.num x) ∧ valOf (.time t) 0 = .ok (.time t) ∧
    valOf (.int k i) 0 = .ok (.num (intToFloat i)) ∧
    valOf (.uint u n) 0 = .ok (.num (natToFloat n)) :=
  ⟨rfl, rfl, rfl, rfl, rfl, rfl⟩

/-- a slice converts to the list of its converted elements, in the same order, one level deeper
(`Elementwise lv ro es xs`: `xs` has as many members as `es` and the i-th is `valOf` of the i-th) -/
theorem content_slice {el : GoType} {vs : GoValList} {lv : Nat} {ro : Bool} {v : Val}
    (h : valOf (.slice el vs) lv ro = .ok v) :
    ∃ ty xs, v = .list ty xs ∧ Elementwise (lv+1) ro vs xs :=
  ConvVal.content_slice h

example : valOf (.slice .string (.cons (.string "a") (.cons (.string "b") .nil))) 0 =
    .ok (.list (.list .str) (.cons (.str "a") (.cons (.str "b") .nil))) := by rfl

/-! ## contents equal the original: every shape

`GoVal.content g` is what the Go value is, `Val.content v` what the converted value holds
(`Yae/Spec/ConvContent.lean`); both are trees of the same type `Content`. -/

/-- a Go value that converts has a content (so `g.content = some c` below is no restriction) -/
theorem content_defined {g : GoVal} {lv : Nat} {ro : Bool} {v : Val}
    (h : valOf g lv ro = .ok v) : ∃ c, g.content = some c :=
  let ⟨c, hc, _⟩ := valOf_content h; ⟨c, hc⟩

/-- **contents, in general.**  The converted value holds the content of the Go value with the
entries of every map inside inserted one by one in the listed order (`Content.norm`; of several
entries whose Go keys convert to one yae key, the first one's position and the last one's value
remain).  Every shape, any nesting, no hypothesis. -/
theorem content_general {g : GoVal} {lv : Nat} {ro : Bool} {v : Val} {c : Content}
    (h : valOf g lv ro = .ok v) (hc : g.content = some c) : v.content = c.norm := by
  obtain ⟨c', hc', hv⟩ := valOf_content h
  rw [hc] at hc'; cases hc'; exact hv

/-- **contents equal the original.**  When in every map inside the Go value the converted keys
are pairwise distinct, the converted value holds exactly the content of the Go value: numbers as
doubles, strings, booleans, instants, sequence members in order, every map entry (none invented)
under the yae key of its Go key, every struct field under its tag name — nil fields absent,
non-nil `maybe` fields present —, nested arbitrarily, pointers and interfaces unwrapped.
(The entries even come in the order the Go value lists them; see `content_faithful`.) -/
theorem content_exact {g : GoVal} {lv : Nat} {ro : Bool} {v : Val} {c : Content}
    (h : valOf g lv ro = .ok v) (hc : g.content = some c) (hd : c.distinctKeys = true) :
    v.content = c := by
  rw [content_general h hc, norm_of_distinct c hd]

/-- the same up to the order of map entries (`≈`), which is all that is meaningful of a Go map -/
theorem content_faithful {g : GoVal} {lv : Nat} {ro : Bool} {v : Val} {c : Content}
    (h : valOf g lv ro = .ok v) (hc : g.content = some c) (hd : c.distinctKeys = true) :
    v.content ≈ c := by
  rw [content_exact h hc hd]; exact Content.Equiv.refl c

/-- **the iteration order of Go maps does not matter**: two Go values with the same content up to
the order of map entries (for instance one Go value whose maps were iterated in two different
orders) convert to values with the same content up to the order of map entries. -/
theorem content_order_irrelevant {g1 g2 : GoVal} {lv1 lv2 : Nat} {ro1 ro2 : Bool} {v1 v2 : Val}
    {c1 c2 : Content} (h1 : valOf g1 lv1 ro1 = .ok v1) (h2 : valOf g2 lv2 ro2 = .ok v2)
    (hc1 : g1.content = some c1) (hc2 : g2.content = some c2) (he : c1 ≈ c2)
    (hd : c1.distinctKeys = true) : v1.content ≈ v2.content := by
  have hd2 : c2.distinctKeys = true := by rw [← Content.Equiv.distinctKeys_eq he]; exact hd
  rw [content_exact h1 hc1 hd, content_exact h2 hc2 hd2]; exact he

/-- what `≈` is: an equivalence relation … -/
theorem equiv_equivalence : (∀ c : Content, c ≈ c) ∧ (∀ c d : Content, c ≈ d → d ≈ c) ∧
    (∀ c d e : Content, c ≈ d → d ≈ e → c ≈ e) :=
  ⟨Content.Equiv.refl, fun _ _ => Content.Equiv.symm, fun _ _ _ => Content.Equiv.trans⟩

/-- … that contains every reordering of an entry list and relates only entry lists with the same
keys up to order -/
theorem equiv_entries (es fs : ContentEntries) :
    (es.toList.Perm fs.toList → Content.entries es ≈ Content.entries fs) ∧
    (Content.entries es ≈ Content.entries fs →
      (es.toList.map Prod.fst).Perm (fs.toList.map Prod.fst)) := by
  refine ⟨fun h => .entries (ContentEntries.Equiv.of_perm h), fun h => ?_⟩
  cases h with
  | entries h' => exact ContentEntries.Equiv.keys_perm h'

/-- two iteration orders of `map[string]bool{"a": true, "b": false}` -/
example : Content.entries (.cons .str "a" (.bool true) (.cons .str "b" (.bool false) .nil)) ≈
    Content.entries (.cons .str "b" (.bool false) (.cons .str "a" (.bool true) .nil)) :=
  .entries .swap

/-! ### non-vacuity: a struct with tagged fields, a `maybe` pointer nil and non-nil -/

/-- `struct{A int; B *string "yae:\"b,maybe\""}` -/
def sampleFields : GoFieldList :=
  .cons "A" "" (.int .int) true (.cons "B" "yae:\"b,maybe\"" (.ptr .string) true .nil)

/-- `{7, nil}`: `A` under its Go name, `B` under its tag name `b`, absent -/
example :
    (GoVal.struct sampleFields (.cons (.int .int 7) (.cons (.ptrNil .string) .nil))).content =
      some (.fields (.cons "A" (.num (intToFloat 7)) (.cons "b" .absent .nil))) ∧
    (Content.fields (.cons "A" (.num (intToFloat 7)) (.cons "b" .absent .nil))).distinctKeys = true ∧
    ∃ v, valOf (.struct sampleFields (.cons (.int .int 7) (.cons (.ptrNil .string) .nil))) 0 = .ok v ∧
      v.content = .fields (.cons "A" (.num (intToFloat 7)) (.cons "b" .absent .nil)) :=
  ⟨by rfl, by rfl, _, by rfl, by rfl⟩

/-- `{7, &"x"}`: present -/
example :
    (GoVal.struct sampleFields (.cons (.int .int 7) (.cons (.ptr (.string "x")) .nil))).content =
      some (.fields (.cons "A" (.num (intToFloat 7)) (.cons "b" (.present (.str "x")) .nil))) ∧
    ∃ v, valOf (.struct sampleFields (.cons (.int .int 7) (.cons (.ptr (.string "x")) .nil))) 0
        = .ok v ∧
      v.content = .fields (.cons "A" (.num (intToFloat 7)) (.cons "b" (.present (.str "x")) .nil)) :=
  ⟨by rfl, _, by rfl, by rfl⟩

/-! ### non-vacuity: a nested slice of maps, behind an interface and a pointer -/

/-- `interface{}(&[]map[string]bool{{"a": true, "b": false}, {"c": true}})` -/
def sampleNested : GoVal := .iface (.ptr (.slice (.map .string .bool)
  (.cons (.map .string .bool
      (.cons (.string "a") (.bool true) (.cons (.string "b") (.bool false) .nil)))
  (.cons (.map .string .bool (.cons (.string "c") (.bool true) .nil)) .nil))))

def sampleNestedContent : Content := .seq
  (.cons (.entries (.cons .str (Num.quote "a") (.bool true)
      (.cons .str (Num.quote "b") (.bool false) .nil)))
  (.cons (.entries (.cons .str (Num.quote "c") (.bool true) .nil)) .nil))

example : sampleNested.content = some sampleNestedContent ∧
    sampleNestedContent.distinctKeys = true ∧
    ∃ v, valOf sampleNested 0 = .ok v ∧ v.content = sampleNestedContent :=
  ⟨by rfl, by decide, _, by rfl, by rfl⟩

/-! ### colliding keys -/

/-- `float64(int64(1<<53)) == float64(int64(1<<53 + 1))` (round to nearest, ties to even) -/
theorem int64_collision : intToFloat 9007199254740992 = intToFloat 9007199254740993 := by rfl

/-- two Go keys that convert to the same number: the converted map has ONE entry, holding the
value of the entry inserted last -/
theorem collision (i j : Int) (h : intToFloat i = intToFloat j) (a b : String) :
    valOf (.map (.int .int64) .string
      (.cons (.int .int64 i) (.string a) (.cons (.int .int64 j) (.string b) .nil))) 0 =
    .ok (.map (.map .num .str) (.cons .num (Num.renderNum (intToFloat i)) (.str b) .nil)) := by
  have hm : ¬ (0 > maxLevel) := by decide
  have hm1 : ¬ (0 + 1 > maxLevel) := by decide
  simp only [valOf, valOfChecks, hm, hm1, if_false, GoVal.isNil, Bool.false_eq_true,
    keyHasNaN, valOfU, bind, Except.bind,
    Val.typeOf, Ty.keyable, Ty.isPrimitive, Ty.kind, Kind.isPrimitive, Bool.true_or, if_true,
    Val.key?, tyEq, valOfEntries, EntryList.insert, h, and_self, pure, Except.pure,
    Bool.not_true]

/-- **the full-strength statement is false without distinct converted keys**:
`map[int64]string{1<<53: "a", 1<<53+1: "b"}` (in this iteration order) has a two-entry content
whose keys coincide; it converts — without an error — to the one-entry map `{2^53: "b"}`, whose
content is not the content of the Go value, not even up to order. -/
theorem collision_counterexample :
    let g : GoVal := .map (.int .int64) .string
      (.cons (.int .int64 9007199254740992) (.string "a")
        (.cons (.int .int64 9007199254740993) (.string "b") .nil))
    let k := Num.renderNum (intToFloat 9007199254740992)
    let c : Content := .entries (.cons .num k (.str "a") (.cons .num k (.str "b") .nil))
    let v : Val := .map (.map .num .str) (.cons .num k (.str "b") .nil)
    g.content = some c ∧ valOf g 0 = .ok v ∧ c.distinctKeys = false ∧
      v.content = c.norm ∧ ¬ (v.content ≈ c) := by
  refine ⟨?_, collision _ _ int64_collision "a" "b", ?_, ?_, ?_⟩
  · simp only [GoVal.content, GoEntryList.content, Option.bind, Content.key?, Option.map,
      ← int64_collision]
  · simp [Content.distinctKeys, ContentEntries.keysNodup, ContentEntries.hasKey]
  · simp [Val.content, EntryList.content, Content.norm, ContentEntries.normInto,
      ContentEntries.insert]
  · intro h
    have := (equiv_entries _ _).2 h
    have := this.length_eq
    simp [Val.content, EntryList.content, ContentEntries.toList] at this

/-- which of the colliding entries survives depends on the order in which Go iterates the map
(unspecified, in practice random): the same Go map converts to `{2^53: "b"}` or to `{2^53: "a"}` -/
theorem collision_order_dependent :
    let k := Num.renderNum (intToFloat 9007199254740992)
    valOf (.map (.int .int64) .string
      (.cons (.int .int64 9007199254740992) (.string "a")
        (.cons (.int .int64 9007199254740993) (.string "b") .nil))) 0 =
      .ok (.map (.map .num .str) (.cons .num k (.str "b") .nil)) ∧
    valOf (.map (.int .int64) .string
      (.cons (.int .int64 9007199254740993) (.string "b")
        (.cons (.int .int64 9007199254740992) (.string "a") .nil))) 0 =
      .ok (.map (.map .num .str) (.cons .num k (.str "a") .nil)) := by
  refine ⟨collision _ _ int64_collision "a" "b", ?_⟩
  have := collision _ _ int64_collision.symm "b" "a"
  rwa [← int64_collision] at this

/-- for the commonest key type the hypothesis holds by itself: the (distinct) string keys of a
Go map convert to pairwise distinct yae keys — quoting is injective.  (For numeric keys it is
genuinely needed, see above; for `time.Time` keys, rendered as text, it is not examined.) -/
theorem string_keys_distinct {es : GoEntryList} {ks : List String} {ces : ContentEntries}
    (hs : stringKeys es = some ks) (hnd : ks.Nodup) (hc : es.content = some ces) :
    ces.keysNodup = true :=
  stringKeys_nodup es ks ces hs hnd hc

example : stringKeys (.cons (.string "a") (.bool true) (.cons (.string "b") (.bool false) .nil))
    = some ["a", "b"] ∧ ["a", "b"].Nodup := ⟨by rfl, by decide⟩

/-! ### the same, read through the accessors of the model -/

/-- **maps**: the converted value is a map value; with distinct converted keys its entry list
holds exactly the Go entries, and subscripting it (`EntryList.find?`) with the yae key of any Go
key finds a value holding the content of that Go entry's value -/
theorem content_map_lookup {kt et : GoType} {es : GoEntryList} {lv : Nat} {ro : Bool} {v : Val}
    {ces : ContentEntries} (h : valOf (.map kt et es) lv ro = .ok v)
    (hc : es.content = some ces) (hd : (Content.entries ces).distinctKeys = true) :
    ∃ ty es', v = .map ty es' ∧ es'.content = ces ∧ es'.length = ces.toList.length ∧
      ∀ t k c, ((t, k), c) ∈ ces.toList → ∃ x, es'.find? t k = some x ∧ x.content = c := by
  have hg : (GoVal.map kt et es).content = some (.entries ces) := by
    simp only [GoVal.content, hc, Option.map]
  obtain ⟨ty, es', rfl, he⟩ := content_eq_entries (content_exact h hg hd)
  simp only [Content.distinctKeys, Bool.and_eq_true] at hd
  refine ⟨ty, es', rfl, he, ?_, fun t k c hm => ?_⟩
  · rw [← he]; exact length_content es'
  · subst he; exact entries_find es' t k c hd.1 hm
where
  length_content : ∀ es : EntryList, es.length = (EntryList.content es).toList.length
    | .nil => rfl
    | .cons _ _ _ es => by
      simp only [EntryList.length, EntryList.content, ContentEntries.toList, List.length_cons,
        length_content es]

/-- **structs**: the converted value is an object value whose own type lists the tag names; member
access by name (`objGet?`) under the tag name of any field finds a value holding that field's
content (`absent` for a nil field, `present c` for a non-nil `maybe` field) -/
theorem content_struct_lookup {fs : GoFieldList} {vs : GoValList} {lv : Nat} {ro : Bool} {v : Val}
    {cf : ContentFields} (h : valOf (.struct fs vs) lv ro = .ok v)
    (hc : fs.content vs = some cf) (hd : (Content.fields cf).distinctKeys = true) :
    ∃ F xs, v = .obj (.obj F) xs ∧ ValList.fieldContent F xs = cf ∧
      ∀ n c, (n, c) ∈ cf.toList → ∃ x, objGet? (.obj F) xs n = some x ∧ x.content = c := by
  have hg : (GoVal.struct fs vs).content = some (.fields cf) := by
    simp only [GoVal.content, hc, Option.map]
  obtain ⟨F, xs, rfl, he⟩ := content_eq_fields (content_exact h hg hd)
  refine ⟨F, xs, rfl, he, fun n c hm => ?_⟩
  subst he
  have hw := valOf_wf h
  simp only [WF, Ty.wf, Bool.and_eq_true] at hw
  exact fieldContent_get F xs n c (wfFields_nodup F hw.1) hm

/-- the struct `{7, &"x"}` of above: `b` (the tag name of `B`) is present with "x" -/
example : ∃ F xs x, valOf (.struct sampleFields
      (.cons (.int .int 7) (.cons (.ptr (.string "x")) .nil))) 0 = .ok (.obj (.obj F) xs) ∧
    objGet? (.obj F) xs "b" = some x ∧ x.content = .present (.str "x") :=
  ⟨_, _, _, by rfl, by rfl, by rfl⟩

/-! ### environments -/

/-- **`conv.ValEnvOf`**: the bindings hold, name by name and in order, the contents the Go value
offers as an environment (`GoVal.envContent`: the entries of a string-keyed map under their key
text, else the fields of a struct under their tag names), maps inside inserted entry by entry -/
theorem env_content {g : GoVal} {env : List (String × Val)} (h : valEnvOf g = .ok env) :
    ∃ cs, g.envContent = some cs ∧ envContents env = envNorm cs :=
  valEnvOf_content h

/-- … exactly those contents when the converted keys of every map inside are distinct -/
theorem env_content_exact {g : GoVal} {env : List (String × Val)} {cs : List (String × Content)}
    (h : valEnvOf g = .ok env) (hc : g.envContent = some cs)
    (hd : ∀ p ∈ cs, p.2.distinctKeys = true) : envContents env = cs := by
  obtain ⟨cs', hc', he⟩ := valEnvOf_content h
  rw [hc] at hc'; cases hc'
  rw [he, envNorm_of_distinct cs hd]

/-- **every name is bound to the content of its value**: looking up (`lookupVal`, what
`envCheck` and evaluation use) any name the Go value offers finds a value holding the content
offered under that name (names distinct, as the keys of a Go map are) -/
theorem env_binds {g : GoVal} {env : List (String × Val)} {cs : List (String × Content)}
    (h : valEnvOf g = .ok env) (hc : g.envContent = some cs)
    (hd : ∀ p ∈ cs, p.2.distinctKeys = true) (hnd : (cs.map Prod.fst).Nodup)
    {n : String} {c : Content} (hm : (n, c) ∈ cs) :
    ∃ v, lookupVal env n = some v ∧ v.content = c :=
  lookup_of_envContents (env_content_exact h hc hd) hnd hm

/-- for a struct (anything that is not a string-keyed map) the names are distinct by themselves:
every field is bound, under its tag name, to the content of its value -/
theorem env_binds_struct {g : GoVal} {env : List (String × Val)} {cs : List (String × Content)}
    (h : valEnvOf g = .ok env) (hrm : reflectMap g = .notMap) (hc : g.envContent = some cs)
    (hd : ∀ p ∈ cs, p.2.distinctKeys = true) {n : String} {c : Content} (hm : (n, c) ∈ cs) :
    ∃ v, lookupVal env n = some v ∧ v.content = c := by
  have he := env_content_exact h hc hd
  refine lookup_of_envContents he ?_ hm
  rw [← he, envContents_fst]
  exact valEnvOf_struct_nodup h hrm

/-- the struct `{7, &"x"}` as an environment: `A ↦ 7`, `b ↦ present "x"` -/
example : (GoVal.struct sampleFields
      (.cons (.int .int 7) (.cons (.ptr (.string "x")) .nil))).envContent =
      some [("A", .num (intToFloat 7)), ("b", .present (.str "x"))] ∧
    ∃ env, valEnvOf (.struct sampleFields
      (.cons (.int .int 7) (.cons (.ptr (.string "x")) .nil))) = .ok env ∧
      envContents env = [("A", .num (intToFloat 7)), ("b", .present (.str "x"))] :=
  ⟨by rfl, _, by rfl, by rfl⟩

/-- `&map[string]interface{}{"n": 1, "s": []string{"u"}}` as an environment -/
example : (GoVal.ptr (.map .string .iface
      (.cons (.string "n") (.iface (.int .int 1))
        (.cons (.string "s") (.iface (.slice .string (.cons (.string "u") .nil))) .nil)))).envContent =
      some [("n", .num (intToFloat 1)), ("s", .seq (.cons (.str "u") .nil))] ∧
    ∃ env, valEnvOf (.ptr (.map .string .iface
      (.cons (.string "n") (.iface (.int .int 1))
        (.cons (.string "s") (.iface (.slice .string (.cons (.string "u") .nil))) .nil)))) = .ok env ∧
      envContents env = [("n", .num (intToFloat 1)), ("s", .seq (.cons (.str "u") .nil))] :=
  ⟨by rfl, _, by rfl, by rfl⟩

/-! ## one sample stands for the type: the environment check -/

/-- **an expression compiled against one sample accepts every other value of that type.**
`g₁`, `g₂` plain values of one Go type whose static type is an object type (a struct, possibly
behind pointers); `tenv` the compile-time environment made of `g₁` (`conv.TypeEnvOf`), `venv`
the run-time environment made of `g₂` (`conv.ValEnvOf`): the facade's check accepts. -/
theorem sample_accepts {g1 g2 : GoVal} {t : GoType} {F : FieldList}
    {tenv : List (String × Ty)} {venv : List (String × Val)}
    (h1 : Plain g1 t) (h2 : Plain g2 t) (hT : typeOf t 0 = .ok (.obj F))
    (ht : typeEnvOf g1 = .ok tenv) (hv : valEnvOf g2 = .ok venv) :
    envCheck tenv venv = .ok () :=
  ConvVal.sample_accepts h1 h2 hT ht hv

/-- the same for two values of one Go struct type -/
theorem sample_accepts_struct {g1 g2 : GoVal} {fs : GoFieldList} {T : Ty}
    {tenv : List (String × Ty)} {venv : List (String × Val)}
    (h1 : Plain g1 (.struct fs)) (h2 : Plain g2 (.struct fs)) (hT : typeOf (.struct fs) 0 = .ok T)
    (ht : typeEnvOf g1 = .ok tenv) (hv : valEnvOf g2 = .ok venv) :
    envCheck tenv venv = .ok () := by
  obtain ⟨F, _, _, rfl⟩ := typeOf_struct_inv hT
  exact ConvVal.sample_accepts h1 h2 hT ht hv

/-- non-vacuity: compiled against `{7, nil}`, run with `{8, &"x"}` -/
example : Plain (.struct sampleFields (.cons (.int .int 7) (.cons (.ptrNil .string) .nil)))
      (.struct sampleFields) ∧
    Plain (.struct sampleFields (.cons (.int .int 8) (.cons (.ptr (.string "x")) .nil)))
      (.struct sampleFields) ∧
    typeOf (.struct sampleFields) 0 = .ok (.obj (.cons "A" .num (.cons "b" (.maybe .str) .nil))) ∧
    typeEnvOf (.struct sampleFields (.cons (.int .int 7) (.cons (.ptrNil .string) .nil))) =
      .ok [("A", .num), ("b", .maybe .str)] ∧
    valEnvOf (.struct sampleFields (.cons (.int .int 8) (.cons (.ptr (.string "x")) .nil))) =
      .ok [("A", .num (intToFloat 8)), ("b", .just .str (.str "x"))] := by
  refine ⟨?_, ?_, by rfl, by rfl, by rfl⟩
  · simp only [Plain, PlainFields, sampleFields, GoVal.isNil, Bool.false_eq_true, if_false,
      if_true, true_and, and_true]
    rfl
  · simp only [Plain, PlainFields, sampleFields, GoVal.isNil, Bool.false_eq_true, if_false,
      true_and, and_true]
    exact ⟨_, rfl, rfl⟩

/-- the condition on nil fields cannot be dropped here either: compiled against
`struct{P *int}{nil}` (`P: maybe[num]`), run with `struct{P *int}{&1}` (`P` a number):
rejected -/
theorem sample_rejected_counterexample :
    let fs : GoFieldList := .cons "P" "" (.ptr (.int .int)) true .nil
    typeEnvOf (.struct fs (.cons (.ptrNil (.int .int)) .nil)) = .ok [("P", .maybe .num)] ∧
    valEnvOf (.struct fs (.cons (.ptr (.int .int 1)) .nil)) = .ok [("P", .num (intToFloat 1))] ∧
    envCheck [("P", .maybe .num)] [("P", .num (intToFloat 1))] = .error .mismatch :=
  ⟨by rfl, by rfl, by rfl⟩

/-- `Plain` is a little wider than "nil-able parts non-nil or declared optional": a nil slice
(or map) directly behind a pointer is plain; it converts like the empty one, to a value of the
static type -/
theorem plain_nil_slice_behind_pointer :
    Plain (.ptr (.sliceNil .string)) (.ptr (.slice .string)) ∧
    typeOf (.ptr (.slice .string)) 0 = .ok (.list .str) ∧
    valOf (.ptr (.sliceNil .string)) 0 = .ok (.list (.list .str) .nil) :=
  ⟨by simp [Plain], by rfl, by rfl⟩

/-! ## errors -/

/-- nil at top level (`reflect.ValueOf(nil)`, nil pointer / slice / map / interface / chan / func) -/
theorem error_nil_top (g : GoVal) (ro : Bool) (hn : g.isNil = true) :
    valOf g 0 ro = .error .nilTop := by
  simpa using valOf_nil g 0 ro (by simp [maxLevel]) hn

example : GoVal.invalid.isNil = true ∧ (GoVal.ptrNil .bool).isNil = true ∧
    (GoVal.sliceNil .bool).isNil = true ∧ GoVal.ifaceNil.isNil = true := ⟨rfl, rfl, rfl, rfl⟩

/-- nil as an element / entry -/
theorem error_nil_inside (g : GoVal) (lv : Nat) (ro : Bool) (hl : 0 < lv) (hm : lv ≤ maxLevel)
    (hn : g.isNil = true) : valOf g lv ro = .error .nilInside := by
  have := valOf_nil g lv ro hm hn
  rwa [if_neg (by omega)] at this

example : valOf (.slice (.ptr .bool) (.cons (.ptrNil .bool) .nil)) 0 = .error .nilInside := by rfl

/-- unsupported kinds (chan, func, complex, uintptr, unsafe.Pointer): the value … -/
theorem error_unsupported_value (n : String) (lv : Nat) (ro : Bool) (hl : lv ≤ maxLevel) :
    valOf (.unsupported n false) lv ro = .error .unsupported :=
  valOf_unsupported n lv ro hl

/-- … and the type; a bare interface type has no static type either -/
theorem error_unsupported_type (n : String) (lv : Nat) (hl : lv ≤ maxLevel) :
    typeOf (.unsupported n) lv = .error .unsupported ∧ typeOf .iface lv = .error .unsupported :=
  typeOf_unsupported n lv hl

example : (0 : Nat) ≤ maxLevel := by simp [maxLevel]

/-- mixed-type slices: the second element converts to a value of another type than the first -/
theorem error_mixed {el : GoType} {e0 e1 : GoVal} {es : GoValList} {lv : Nat} {ro : Bool}
    {v0 v1 : Val} (hl : lv ≤ maxLevel) (h0 : valOf e0 (lv+1) ro = .ok v0)
    (h1 : valOf e1 (lv+1) ro = .ok v1) (hne : tyEq v0.typeOf v1.typeOf = false) :
    valOf (.slice el (.cons e0 (.cons e1 es))) lv ro = .error .mixed :=
  valOf_slice_mixed hl h0 h1 hne

/-- `[]interface{}{true, "a"}` -/
example : valOf (.slice .iface (.cons (.iface (.bool true)) (.cons (.iface (.string "a")) .nil))) 0
    = .error .mixed := by rfl

/-- beyond the depth limit every value — also a scalar — is refused -/
theorem error_depth (g : GoVal) (lv : Nat) (ro : Bool) (h : lv > maxLevel) :
    valOf g lv ro = .error .depth ∧ ∀ t, typeOf t lv = .error .depth :=
  ⟨valOf_depth g lv ro h, fun t => typeOf_depth t lv h⟩

/-- hence data nested deeper than the limit is refused from the top: `n` slices around any value,
converted at level `lv` with `lv + n > maxLevel` -/
theorem error_depth_nested (t : GoType) (g : GoVal) (ro : Bool) (n lv : Nat)
    (h : lv + n > maxLevel) : valOf (nest n t g) lv ro = .error .depth :=
  valOf_nest_depth t g ro n lv h

example : (0 : Nat) + 101 > maxLevel := by simp [maxLevel]

end Yae.C15

#print axioms Yae.C15.valOf_wf
#print axioms Yae.C15.valOf_noNil
#print axioms Yae.C15.typeOf_wf
#print axioms Yae.C15.typeOfRV_wf
#print axioms Yae.C15.typeOfRV_agree
#print axioms Yae.C15.typeOf_agree_partial
#print axioms Yae.C15.plain_goType
#print axioms Yae.C15.nil_field_counterexample
#print axioms Yae.C15.sample_independent
#print axioms Yae.C15.shape_determines_type
#print axioms Yae.C15.content_scalars
#print axioms Yae.C15.content_slice
#print axioms Yae.C15.content_defined
#print axioms Yae.C15.content_general
#print axioms Yae.C15.content_exact
#print axioms Yae.C15.content_faithful
#print axioms Yae.C15.content_order_irrelevant
#print axioms Yae.C15.equiv_equivalence
#print axioms Yae.C15.equiv_entries
#print axioms Yae.C15.int64_collision
#print axioms Yae.C15.collision
#print axioms Yae.C15.collision_counterexample
#print axioms Yae.C15.collision_order_dependent
#print axioms Yae.C15.string_keys_distinct
#print axioms Yae.C15.content_map_lookup
#print axioms Yae.C15.content_struct_lookup
#print axioms Yae.C15.env_content
#print axioms Yae.C15.env_content_exact
#print axioms Yae.C15.env_binds
#print axioms Yae.C15.env_binds_struct
#print axioms Yae.C15.sample_accepts
#print axioms Yae.C15.sample_accepts_struct
#print axioms Yae.C15.sample_rejected_counterexample
#print axioms Yae.C15.plain_nil_slice_behind_pointer
#print axioms Yae.C15.error_nil_top
#print axioms Yae.C15.error_nil_inside
#print axioms Yae.C15.error_unsupported_value
#print axioms Yae.C15.error_unsupported_type
#print axioms Yae.C15.error_mixed
#print axioms Yae.C15.error_depth
#print axioms Yae.C15.error_depth_nested
