/-
  C15. "Converting a Go value yields a well-formed value whose type equals the type reported for
  that same Go value, and whose contents equal the original (numbers as doubles, strings,
  booleans, instants, sequence order, map entries, struct fields under their tag names). For Go
  values of one static type without interface-typed parts whose nil-able parts are non-nil or
  declared optional, the resulting type is the same for every value, so an expression compiled
  against one sample of a Go type accepts every other value of that type; unsupported or
  inconsistent data (nil at top level, mixed-type interface slices, unsupported kinds, nesting
  beyond the depth limit) is reported as an error."

  Model: `Yae/Model/Conv.lean` — `GoType`/`GoVal` mirror what `reflect` shows of host data,
  `valOf g lv` = `conv.valOf(rv, lv)`, `typeOf t lv` = `conv.typeOf(rt, lv)` (static),
  `typeOfRV g` = `conv.TypeOf(v)` ("the type reported for that same Go value": the type of the
  converted value when the conversion succeeds, else the static type).
  Proofs: `Yae.Proofs.ConvVal`, `Yae.Proofs.ConvAgree`.

  * well-formed: `valOf_wf` (DEEP well-formedness `Yae.Sound.WF`, the invariant type soundness
    C01/C02 needs of environment values), `valOf_noNil`, `typeOf_wf`, `typeOfRV_wf`.
  * "type equals the type reported": `typeOfRV_agree` (by definition of `conv.TypeOf`).
  * "the same for every value": `typeOf_agree_partial` — the own type of a converted value equals
    (`types.Equals`) the STATIC type of its Go type, for values `Plain g t` (conforming to their
    static type `t`, no interface-typed part, nil struct fields tagged `maybe`); hence
    `sample_independent` / `shape_determines_type`: any two such values of one Go type convert to
    values of equal types.  Without the condition on nil fields it is false
    (`nil_field_counterexample`).  Interface-typed parts need no separate exclusion in the
    statement: a Go type with an interface-typed part has no static type (`typeOf … = error`).
  * "contents equal the original": `content_*` — the scalar clauses and element order of
    slices; map entries and struct fields are not restated here beyond well-formedness (the
    differential stream `conv` compares them against Go).
  * errors: `error_nil_top`, `error_nil_inside`, `error_unsupported_value`,
    `error_unsupported_type`, `error_mixed`, `error_depth`, `error_depth_nested`.
-/
import Yae.Proofs.ConvAgree
namespace Yae.C15
open Yae Yae.Sound Yae.ConvVal

/-! ## well-formed -/

/-- every converted value is deeply well formed -/
theorem valOf_wf {g : GoVal} {lv : Nat} {ro : Bool} {v : Val} (h : valOf g lv ro = .ok v) :
    WF v = true := ConvVal.valOf_wf h

/-- … and has no absent (Go nil) component -/
theorem valOf_noNil {g : GoVal} {lv : Nat} {ro : Bool} {v : Val} (h : valOf g lv ro = .ok v) :
    noNil v = true := WF_noNil v (valOf_wf h)

/-- a struct `{A int; B *string "yae:\"b,maybe\""}` with `B` nil converts -/
example : valOf (.struct (.cons "A" "" (.int .int) true
      (.cons "B" "yae:\"b,maybe\"" (.ptr .string) true .nil))
    (.cons (.int .int 7) (.cons (.ptrNil .string) .nil))) 0 =
    .ok (.obj (.obj (.cons "A" .num (.cons "b" (.maybe .str) .nil)))
      (.cons (.num (intToFloat 7)) (.cons (.nothing .str) .nil))) := by rfl

/-- every statically reported type is well formed (distinct field names, keyable map keys) -/
theorem typeOf_wf {t : GoType} {lv : Nat} {T : Ty} (h : typeOf t lv = .ok T) : T.wf = true :=
  ConvVal.typeOf_wf t lv T h

example : typeOf (.map .string (.slice .float64)) 0 = .ok (.map .str (.list .num)) := by rfl

/-- every type `conv.TypeOf` reports is well formed -/
theorem typeOfRV_wf {g : GoVal} {T : Ty} (h : typeOfRV g = .ok T) : T.wf = true := by
  unfold typeOfRV at h
  split at h
  · next x hx => cases h; exact WF_typeOf_wf x (valOf_wf hx)
  · split at h
    · cases h
    · exact typeOf_wf h

example : typeOfRV (.slice .string .nil) = .ok (.list .str) := by rfl

/-! ## the type reported for the same value -/

/-- `conv.TypeOf(v)` is the own type of `conv.ValOf(v)` whenever the conversion succeeds -/
theorem typeOfRV_agree {g : GoVal} {T : Ty} {v : Val} (hT : typeOfRV g = .ok T)
    (hv : valOf g 0 = .ok v) : T = v.typeOf := by
  unfold typeOfRV at hT
  rw [hv] at hT
  cases hT; rfl

example : typeOfRV (.bool true) = .ok .bool ∧ valOf (.bool true) 0 = .ok (.bool true) :=
  ⟨by rfl, by rfl⟩

/-! ## the same type for every value of one Go type -/

/-- **static agreement, partial.**  For a value that conforms to its static type `t`, has no
interface-typed part and whose nil struct fields are tagged `maybe` (`Plain g t`), the own type
of the converted value is `types.Equals` to the static type of `t`.

Full statement (FALSE, see `nil_field_counterexample`):
  `g.goType? = some t → typeOf t 0 = .ok T → valOf g 0 = .ok v → tyEq T v.typeOf = true`.
What is missing without `Plain`: a nil field that is not tagged `maybe` is converted to an absent
optional although the static field type is not optional. -/
theorem typeOf_agree_partial {g : GoVal} {t : GoType} {T : Ty} {v : Val} (hp : Plain g t)
    (hT : typeOf t 0 = .ok T) (hv : valOf g 0 = .ok v) : tyEq T v.typeOf = true :=
  agreeU g t 0 0 false T v hp hT (valOfChecks_ok hv).2.2

/-- `Plain` determines the static type: it is the value's `reflect` type -/
theorem plain_goType {g : GoVal} {t : GoType} (hp : Plain g t) : g.goType? = some t :=
  Plain.goType g t hp

/-- non-vacuity: `[]struct{A int; B *string "yae:\"b,maybe\""}{{7, nil}}` is plain -/
example : Plain
    (.slice (.struct (.cons "A" "" (.int .int) true
        (.cons "B" "yae:\"b,maybe\"" (.ptr .string) true .nil)))
      (.cons (.struct (.cons "A" "" (.int .int) true
          (.cons "B" "yae:\"b,maybe\"" (.ptr .string) true .nil))
        (.cons (.int .int 7) (.cons (.ptrNil .string) .nil))) .nil))
    (.slice (.struct (.cons "A" "" (.int .int) true
        (.cons "B" "yae:\"b,maybe\"" (.ptr .string) true .nil)))) := by
  simp only [Plain, PlainList, PlainFields, GoVal.isNil, Bool.false_eq_true, if_false, if_true,
    true_and, and_true]
  rfl

/-- the condition on nil fields cannot be dropped: `struct{P *int}{nil}` has the static type
`{P: num}` but converts to a value of type `{P: maybe[num]}` -/
theorem nil_field_counterexample :
    let fs : GoFieldList := .cons "P" "" (.ptr (.int .int)) true .nil
    let g : GoVal := .struct fs (.cons (.ptrNil (.int .int)) .nil)
    g.goType? = some (.struct fs) ∧
    typeOf (.struct fs) 0 = .ok (.obj (.cons "P" .num .nil)) ∧
    valOf g 0 = .ok (.obj (.obj (.cons "P" (.maybe .num) .nil)) (.cons (.nothing .num) .nil)) ∧
    tyEq (.obj (.cons "P" .num .nil)) (.obj (.cons "P" (.maybe .num) .nil)) = false :=
  ⟨rfl, by rfl, by rfl, by decide⟩

/-- **one sample stands for the type**: two plain values of the same Go type convert to values
of equal types (in both directions), so an environment built from one is accepted by an
expression compiled against the other (`Yae.C07.accept_iff` asks exactly for this equality). -/
theorem sample_independent {g1 g2 : GoVal} {t : GoType} {T : Ty} {v1 v2 : Val}
    (h1 : Plain g1 t) (h2 : Plain g2 t) (hT : typeOf t 0 = .ok T)
    (hv1 : valOf g1 0 = .ok v1) (hv2 : valOf g2 0 = .ok v2) :
    tyEq v1.typeOf v2.typeOf = true := by
  have a1 := typeOf_agree_partial h1 hT hv1
  have a2 := typeOf_agree_partial h2 hT hv2
  have wT := typeOf_wf hT
  have w1 := WF_typeOf_wf v1 (valOf_wf hv1)
  rw [tyEq_symm' wT w1] at a1
  exact tyEq_trans' w1 wT a1 a2

/-- the same under the name C07 refers to: `GoType` carries no type NAMES (only kinds, element
types, field names/tags), so "equally shaped" Go types are the same `GoType` -/
theorem shape_determines_type {g1 g2 : GoVal} {t : GoType} {T : Ty} {v1 v2 : Val}
    (h1 : Plain g1 t) (h2 : Plain g2 t) (hT : typeOf t 0 = .ok T)
    (hv1 : valOf g1 0 = .ok v1) (hv2 : valOf g2 0 = .ok v2) :
    tyEq v1.typeOf v2.typeOf = true ∧ tyEq v2.typeOf v1.typeOf = true :=
  ⟨sample_independent h1 h2 hT hv1 hv2, sample_independent h2 h1 hT hv2 hv1⟩

/-- non-vacuity: an empty and a non-empty `[]string` -/
example : Plain (.slice .string .nil) (.slice .string) ∧
    Plain (.slice .string (.cons (.string "a") .nil)) (.slice .string) ∧
    typeOf (.slice .string) 0 = .ok (.list .str) ∧
    valOf (.slice .string .nil) 0 = .ok (.list (.list .str) .nil) ∧
    valOf (.slice .string (.cons (.string "a") .nil)) 0 =
      .ok (.list (.list .str) (.cons (.str "a") .nil)) := by
  refine ⟨?_, ?_, by rfl, by rfl, by rfl⟩ <;> simp [Plain, PlainList]

/-! ## contents -/

/-- numbers as doubles, strings, booleans, instants: unchanged -/
theorem content_scalars (s : String) (b : Bool) (x : Float) (is32 : Bool) (t : TimeV)
    (k : IntKind) (i : Int) (u : UintKind) (n : Nat) :
    valOf (.string s) 0 = .ok (.str s) ∧ valOf (.bool b) 0 = .ok (.bool b) ∧
    valOf (.float is32 x) 0 = .ok (.num x) ∧ valOf (.time t) 0 = .ok (.time t) ∧
    valOf (.int k i) 0 = .ok (.num (intToFloat i)) ∧
    valOf (.uint u n) 0 = .ok (.num (natToFloat n)) :=
  ⟨rfl, rfl, rfl, rfl, rfl, rfl⟩

/-- a slice converts to the list of its converted elements, in the same order, one level deeper
(`Elementwise lv ro es xs`: `xs` has as many members as `es` and the i-th is `valOf` of the i-th) -/
theorem content_slice {el : GoType} {vs : GoValList} {lv : Nat} {ro : Bool} {v : Val}
    (h : valOf (.slice el vs) lv ro = .ok v) :
    ∃ ty xs, v = .list ty xs ∧ Elementwise (lv+1) ro vs xs :=
  ConvVal.content_slice h

example : valOf (.slice .string (.cons (.string "a") (.cons (.string "b") .nil))) 0 =
    .ok (.list (.list .str) (.cons (.str "a") (.cons (.str "b") .nil))) := by rfl

/-! ## errors -/

/-- nil at top level (`reflect.ValueOf(nil)`, nil pointer / slice / map / interface / chan / func) -/
theorem error_nil_top (g : GoVal) (ro : Bool) (hn : g.isNil = true) :
    valOf g 0 ro = .error .nilTop := by
  simpa using valOf_nil g 0 ro (by simp [maxLevel]) hn

example : GoVal.invalid.isNil = true ∧ (GoVal.ptrNil .bool).isNil = true ∧
    (GoVal.sliceNil .bool).isNil = true ∧ GoVal.ifaceNil.isNil = true := ⟨rfl, rfl, rfl, rfl⟩

/-- nil as an element / entry -/
theorem error_nil_inside (g : GoVal) (lv : Nat) (ro : Bool) (hl : 0 < lv) (hm : lv ≤ maxLevel)
    (hn : g.isNil = true) : valOf g lv ro = .error .nilInside := by
  have := valOf_nil g lv ro hm hn
  rwa [if_neg (by omega)] at this

example : valOf (.slice (.ptr .bool) (.cons (.ptrNil .bool) .nil)) 0 = .error .nilInside := by rfl

/-- unsupported kinds (chan, func, complex, uintptr, unsafe.Pointer): the value … -/
theorem error_unsupported_value (n : String) (lv : Nat) (ro : Bool) (hl : lv ≤ maxLevel) :
    valOf (.unsupported n false) lv ro = .error .unsupported :=
  valOf_unsupported n lv ro hl

/-- … and the type; a bare interface type has no static type either -/
theorem error_unsupported_type (n : String) (lv : Nat) (hl : lv ≤ maxLevel) :
    typeOf (.unsupported n) lv = .error .unsupported ∧ typeOf .iface lv = .error .unsupported :=
  typeOf_unsupported n lv hl

example : (0 : Nat) ≤ maxLevel := by simp [maxLevel]

/-- mixed-type slices: the second element converts to a value of another type than the first -/
theorem error_mixed {el : GoType} {e0 e1 : GoVal} {es : GoValList} {lv : Nat} {ro : Bool}
    {v0 v1 : Val} (hl : lv ≤ maxLevel) (h0 : valOf e0 (lv+1) ro = .ok v0)
    (h1 : valOf e1 (lv+1) ro = .ok v1) (hne : tyEq v0.typeOf v1.typeOf = false) :
    valOf (.slice el (.cons e0 (.cons e1 es))) lv ro = .error .mixed :=
  valOf_slice_mixed hl h0 h1 hne

/-- `[]interface{}{true, "a"}` -/
example : valOf (.slice .iface (.cons (.iface (.bool true)) (.cons (.iface (.string "a")) .nil))) 0
    = .error .mixed := by rfl

/-- beyond the depth limit every value — also a scalar — is refused -/
theorem error_depth (g : GoVal) (lv : Nat) (ro : Bool) (h : lv > maxLevel) :
    valOf g lv ro = .error .depth ∧ ∀ t, typeOf t lv = .error .depth :=
  ⟨valOf_depth g lv ro h, fun t => typeOf_depth t lv h⟩

/-- hence data nested deeper than the limit is refused from the top: `n` slices around any value,
converted at level `lv` with `lv + n > maxLevel` -/
theorem error_depth_nested (t : GoType) (g : GoVal) (ro : Bool) (n lv : Nat)
    (h : lv + n > maxLevel) : valOf (nest n t g) lv ro = .error .depth :=
  valOf_nest_depth t g ro n lv h

example : (0 : Nat) + 101 > maxLevel := by simp [maxLevel]

end Yae.C15

#print axioms Yae.C15.valOf_wf
#print axioms Yae.C15.valOf_noNil
#print axioms Yae.C15.typeOf_wf
#print axioms Yae.C15.typeOfRV_wf
#print axioms Yae.C15.typeOfRV_agree
#print axioms Yae.C15.typeOf_agree_partial
#print axioms Yae.C15.plain_goType
#print axioms Yae.C15.nil_field_counterexample
#print axioms Yae.C15.sample_independent
#print axioms Yae.C15.shape_determines_type
#print axioms Yae.C15.content_scalars
#print axioms Yae.C15.content_slice
#print axioms Yae.C15.error_nil_top
#print axioms Yae.C15.error_nil_inside
#print axioms Yae.C15.error_unsupported_value
#print axioms Yae.C15.error_unsupported_type
#print axioms Yae.C15.error_mixed
#print axioms Yae.C15.error_depth
#print axioms Yae.C15.error_depth_nested
