/-
  C16. "A value that may be absent has a distinct optional type; no operator, built-in or field /
  index access accepts it where the underlying type is required, so every such program is
  rejected at compile time. The only way to use it is get(optional, default), which yields the
  payload when present and the default otherwise; hence evaluating an accepted expression over
  host data containing nil pointers, nil slices or nil maps never fails because of the absence."

  Model: `Yae.Model.Unify` (`unify`), `Yae.Model.Check` (`check`), `Yae.Model.Builtins`
  (`builtins`, `applyBuiltin`).  Specification: `Yae.Spec.Typing`.  Proofs:
  `Yae.Proofs.TypingOpt`.
-/
import Yae.Proofs.TypingOpt
import Yae.Proofs.TypingD22
namespace Yae.C16
open Yae

/-! ## no coercion out of an optional -/

/-- From the definition of `unify`: a parameter pattern that unifies with `maybe[t]` is a type
variable, an optional pattern, or `⊤` — never the underlying type. -/
theorem no_coercion {fuel : Nat} {p t : Ty} {m : Subst} {r : Ty × Subst}
    (h : unify fuel p (.maybe t) m = .ok r) :
    (∃ n, p = .var n) ∨ (∃ a, p = .maybe a) ∨ p = .top :=
  unify_maybe_right h

/-- non-vacuity: `maybe['a]` unifies with `maybe[num]`; and `num` does not -/
example : unify 2 (.maybe (.var "a")) (.maybe .num) [] = .ok (.maybe .num, [("a", .num)]) := by
  rw [unify_nonvar _ _ _ _ (by decide) (by decide)]
  simp [Ty.isPrimitive, Ty.isComposite, Ty.kind, Kind.isPrimitive, Kind.isComposite,
    unifyComposite]
  rw [unify_var_left _ _ _ _ (by decide)]
  simp [applySubst, freeFrom, Subst.get?, Subst.set]

example (fuel : Nat) (m : Subst) (r : Ty × Subst) : unify fuel .num (.maybe .num) m ≠ .ok r := by
  intro h
  rcases no_coercion h with ⟨_, h⟩ | ⟨_, h⟩ | h <;> cases h

/-- `⊤` occurs in no built-in signature, so for the built-ins the third alternative is void. -/
theorem builtins_no_top : builtins.all (fun b => noTop b.ty) = true := by decide

/-- The same for the specification's matching (`pmatch`, what `instantiate` is made of). -/
theorem no_coercion_spec {p t : Ty} {m : Subst} {r : Ty × Subst}
    (h : pmatch p (.maybe t) m = some r) : AcceptsMaybe p := pmatch_maybe h

example : pmatch (.maybe (.var "a")) (.maybe .num) [] = some (.maybe .num, [("a", .num)]) := rfl

/-- Lifted to calls: in a well-typed call `f(args)` (by `C05.sound_partial`: in every call the
checker accepts) an argument of type `maybe[t]` at position `i` meets, in the selected overload
`d`, a parameter that is a type variable, an optional pattern, or `⊤`. -/
theorem call_no_coercion {Γ : TEnv} {p col cp f args cty res idx T}
    (h : Typed Γ (.call p col (.ident cp f) args cty res idx) T) :
    ∃ As d name ps ret, TypedArgs Γ args As ∧ d ∈ Γ.funs ∧ d.ty = .fn name ps ret ∧
      ∀ i t, As.get? i = some (.maybe t) → ∃ q, ps.get? i = some q ∧ AcceptsMaybe q :=
  typed_call_maybe h

/-- the accepted-program form (environments as in C05) -/
theorem accepted_call_no_coercion {Γ : TEnv} (hΓ : EnvOK Γ) {c c' : Nat} {p col cp f args cty res idx}
    {T : Ty} {e' : Expr}
    (h : check Γ c (.call p col (.ident cp f) args cty res idx) = .ok (T, e', c')) :
    ∃ As d name ps ret, TypedArgs Γ args As ∧ d ∈ Γ.funs ∧ d.ty = .fn name ps ret ∧
      ∀ i t, As.get? i = some (.maybe t) → ∃ q, ps.get? i = some q ∧ AcceptsMaybe q :=
  typed_call_maybe (check_sound hΓ _ c T e' c' h)

/-- non-vacuity of the hypotheses of `accepted_call_no_coercion`: `x + x` in `exEnv` -/
example : EnvOK exEnv ∧ ∃ e', check exEnv 0 exExpr = .ok (.num, e', 0) := ⟨exEnv_ok, _, rfl⟩

/-- non-vacuity: `get(o, 0)` with `o : maybe[num]` is well typed in the built-in table -/
example : Typed (builtinEnv [("o", .maybe .num)])
    (.call Pos.unknown 0 (.ident Pos.unknown "get")
      (.cons (.ident Pos.unknown "o") (.cons (.num Pos.unknown 0) .nil)) none "" 0) .num := by
  refine .callPoly (As := .cons (.maybe .num) (.cons .num .nil))
    (ps' := .cons (.maybe .num) (.cons .num .nil))
    (.cons (.ident rfl rfl) (.cons (.num _ _) .nil)) rfl ?_ rfl
  have : lookupPoly (builtinEnv [("o", .maybe .num)]).funs
      (polyKey "get" (TyList.cons (.maybe .num) (.cons .num .nil)).length) =
      [⟨.fn "get" (.cons (.maybe (.var "a")) (.cons (.var "a") .nil)) (.var "a"), .builtin 17,
        false⟩] := rfl
  rw [this]
  exact .here rfl rfl

/-! ## which built-in parameters can receive an optional -/

/-- The only built-in parameter of the form `maybe[_]` is the first parameter of `get(maybe['a],
'a)`; the built-in parameters that are bare type variables (they accept an optional, as any other
type, without looking inside it) are exactly: the default of the three `get`s, the key of
`get(map)` / `isset`, the branches of `if`, the operands of `print` and `string`. -/
theorem sole_eliminator :
    builtinParamsWhere isMaybeTy = [(.GET_MAYBE, 0)] ∧
    builtinParamsWhere isVarTy =
      [(.GET_LIST_NUM_ANY, 2), (.GET_MAP_ANY_ANY, 1), (.GET_MAP_ANY_ANY, 2), (.GET_MAYBE, 1),
       (.IF_BOOL_ANY_ANY, 1), (.IF_BOOL_ANY_ANY, 2), (.ISSET_MAP_ANY, 1), (.PRINT_ANY, 0),
       (.STRING_ANY, 0)] := by
  constructor <;> decide

/-! ## field and index access on an optional are rejected -/

theorem member_rejected {Γ : TEnv} {c c1 : Nat} {obj obj' : Expr} {t : Ty}
    (h : check Γ c obj = .ok (.maybe t, obj', c1)) (p : Pos) (col : Int) (field : String)
    (fp : Pos) (oty : Option Ty) (i : Int) :
    check Γ c (.member p col obj field fp oty i) = .error .type :=
  check_member_maybe h p col field fp oty i

theorem subscript_rejected {Γ : TEnv} {c c1 : Nat} {var var' : Expr} {t : Ty}
    (h : check Γ c var = .ok (.maybe t, var', c1)) (p : Pos) (col : Int) (idx : Expr)
    (vty : Option Ty) :
    check Γ c (.subscript p col var idx vty) = .error .type :=
  check_subscript_maybe h p col idx vty

/-- non-vacuity of both: a variable of optional type -/
example : check (builtinEnv [("o", .maybe .num)]) 0 (.ident Pos.unknown "o") =
    .ok (.maybe .num, .ident Pos.unknown "o", 0) := rfl

/-- and at the level of the rules: no rule gives a type to `o.f` or `o[i]` for `o : maybe[t]` -/
theorem member_untyped {Γ : TEnv} {o : Expr} {t : Ty} (h : Typed Γ o (.maybe t)) (p : Pos)
    (col : Int) (f : String) (fp : Pos) (oty : Option Ty) (i : Int) :
    ¬ ∃ T, Typed Γ (.member p col o f fp oty i) T := by
  rintro ⟨T, h'⟩
  cases h' with
  | member a _ => cases typed_unique o _ _ h a

theorem subscript_untyped {Γ : TEnv} {o : Expr} {t : Ty} (h : Typed Γ o (.maybe t)) (p : Pos)
    (col : Int) (idx : Expr) (vty : Option Ty) :
    ¬ ∃ T, Typed Γ (.subscript p col o idx vty) T := by
  rintro ⟨T, h'⟩
  cases h' with
  | subList a _ _ => cases typed_unique o _ _ h a
  | subMap a _ _ => cases typed_unique o _ _ h a

example : Typed (builtinEnv [("o", .maybe .num)]) (.ident Pos.unknown "o") (.maybe .num) :=
  .ident rfl rfl

/-! ## the eliminator -/

/-- `get(optional, default)`: the payload when present, the default otherwise; no events. -/
theorem get_maybe_spec (ext : Externs) (T : Ty) (v d : Val) :
    applyBuiltin ext .GET_MAYBE [.just T v, d] = .ok (v, []) ∧
    applyBuiltin ext .GET_MAYBE [.nothing T, d] = .ok (d, []) := ⟨rfl, rfl⟩

end Yae.C16

#print axioms Yae.C16.no_coercion
#print axioms Yae.C16.builtins_no_top
#print axioms Yae.C16.no_coercion_spec
#print axioms Yae.C16.call_no_coercion
#print axioms Yae.C16.accepted_call_no_coercion
#print axioms Yae.C16.sole_eliminator
#print axioms Yae.C16.member_rejected
#print axioms Yae.C16.subscript_rejected
#print axioms Yae.C16.member_untyped
#print axioms Yae.C16.subscript_untyped
#print axioms Yae.C16.get_maybe_spec
