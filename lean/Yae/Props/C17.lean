/-
  C17. "Type equality is an equivalence relation that holds exactly for structurally identical
  types (object fields compared by name). Whenever unification of two types succeeds, applying
  the resulting substitution to both makes them equal and no variable is bound to a type
  containing itself or to two different types; whenever a pattern with type variables is matched
  against a variable-free type, unification succeeds exactly when an instantiation exists; the
  empty-container element type unifies only where the rules allow it."

  Model: `Yae.Model.Ty` (`tyEq` = `types.Equals`, `Ty.wf` = what the constructors `types.Obj` /
  `types.Map` assert), `Yae.Model.Unify` (`unify`, `applySubst`).  Proofs: `Yae.Proofs.TyEq`.
  This file only states the property-level theorems.

  `StructEq` : same constructor, related children; objects by name (same length, same names,
               equally named fields related); function names ignored (as `equalsFun` does).
  `a ⊑ b`    : (`Below`) `StructEq` relaxed by `x ⊑ ⊥` and `⊤ ⊑ x`, the two catch-all successes
               of `unify`.
-/
import Yae.Proofs.TyEq
namespace Yae.C17
open Yae

/-! ## 1–4  `tyEq` is an equivalence on well-formed types and is exactly `StructEq` -/

/-- (1) reflexive on well-formed types -/
theorem tyEq_refl {t : Ty} (h : t.wf = true) : tyEq t t = true := tyEq_refl' h

/-- non-vacuity: an object type is well formed; its fields are compared by name, not position -/
example : (Ty.obj (.cons "a" .num (.cons "b" .str .nil))).wf = true ∧
    tyEq (.obj (.cons "a" .num (.cons "b" .str .nil)))
         (.obj (.cons "b" .str (.cons "a" .num .nil))) = true := by decide

/-- `wf` is needed: with a duplicated field name (which `types.Obj` rejects) `GetField` returns
the first field and the type is not even equal to itself. -/
example : tyEq (.obj (.cons "a" .num (.cons "a" .str .nil)))
               (.obj (.cons "a" .num (.cons "a" .str .nil))) = false := by decide

/-- (2) symmetric on well-formed types -/
theorem tyEq_symm {a b : Ty} (ha : a.wf = true) (hb : b.wf = true) : tyEq a b = tyEq b a :=
  tyEq_symm' ha hb

example : (Ty.obj (.cons "a" .num (.cons "b" .num .nil))).wf = true := by decide

/-- `wf` is needed for symmetry as well. -/
example : tyEq (.obj (.cons "a" .num (.cons "a" .num .nil)))
               (.obj (.cons "a" .num (.cons "b" .num .nil))) = true ∧
          tyEq (.obj (.cons "a" .num (.cons "b" .num .nil)))
               (.obj (.cons "a" .num (.cons "a" .num .nil))) = false := by decide

/-- (3) transitive on well-formed types (`c.wf` is not even needed) -/
theorem tyEq_trans {a b c : Ty} (ha : a.wf = true) (hb : b.wf = true) (_hc : c.wf = true)
    (h1 : tyEq a b = true) (h2 : tyEq b c = true) : tyEq a c = true :=
  tyEq_trans' ha hb h1 h2

example : ∃ a b c : Ty, a.wf = true ∧ b.wf = true ∧ c.wf = true ∧
    tyEq a b = true ∧ tyEq b c = true :=
  ⟨.obj (.cons "x" .num (.cons "y" (.list .str) .nil)),
   .obj (.cons "y" (.list .str) (.cons "x" .num .nil)),
   .obj (.cons "x" .num (.cons "y" (.list .str) .nil)), by decide⟩

/-- (4) `tyEq` holds exactly for structurally identical types, object fields by name.
(Only `a.wf` is used; `b.wf` follows when either side holds.) -/
theorem tyEq_iff_structEq {a b : Ty} (ha : a.wf = true) (_hb : b.wf = true) :
    tyEq a b = true ↔ StructEq a b :=
  tyEq_iff_structEq' ha

example : (Ty.fn "f" (.cons (.var "a") .nil) (.map .str (.var "a"))).wf = true := by decide

/-- `StructEq` itself is an equivalence relation on all types. -/
theorem structEq_equivalence : Equivalence StructEq :=
  ⟨StructEq.refl, fun h => StructEq.symm _ _ h, fun h1 h2 => StructEq.trans _ _ _ h1 h2⟩

/-! ## 5  matching a pattern against a variable-free type -/

/-- (5, soundness) If `unify fuel p g m` succeeds, where `g` is variable free and well formed and
`m` binds variables to variable-free well-formed types, then the resulting substitution `m'`
keeps every binding of `m` (up to `tyEq`), again binds variables to variable-free well-formed
types, and instantiates `p` below `g`: whatever `applySubst … m' p` returns is `⊑ g`
(and with at least one unit of fuel it does not run out of fuel). -/
theorem match_sound {fuel : Nat} {p g t : Ty} {m m' : Subst}
    (hg : slotFree g = true) (hgw : g.wf = true)
    (hm : ∀ n k, m.get? n = some k → slotFree k = true ∧ k.wf = true)
    (h : unify fuel p g m = .ok (t, m')) :
    (∀ n k, m.get? n = some k → ∃ k', m'.get? n = some k' ∧ tyEq k k' = true) ∧
    (∀ n k, m'.get? n = some k → slotFree k = true ∧ k.wf = true) ∧
    (∀ fuel' p', applySubst fuel' m' p = .ok p' → p' ⊑ g) ∧
    (∀ fuel', applySubst (fuel'+1) m' p ≠ .error .fuel) :=
  match_sound' hg hgw hm h

/-- a concrete successful match: `list['a]` against `list[num]` binds `'a := num` -/
theorem ex_match :
    unify 3 (.list (.var "a")) (.list .num) [] = .ok (.list .num, [("a", .num)]) := by
  rw [unify_nonvar _ _ _ _ (by decide) (by decide)]
  simp [Ty.isPrimitive, Ty.isComposite, Ty.kind, Kind.isPrimitive, Kind.isComposite,
    unifyComposite]
  rw [unify_var_left _ _ _ _ (by decide)]
  simp [applySubst, freeFrom, Subst.get?, Subst.set]

/-- non-vacuity of `match_sound`: its hypotheses hold for `ex_match`, and the conclusion gives
that `applySubst` of the result substitution to the pattern is below `list[num]`. -/
example : ∀ fuel' p', applySubst fuel' [("a", .num)] (.list (.var "a")) = .ok p' →
    p' ⊑ .list .num :=
  (match_sound (by decide) (by decide) (by intro n k h; simp [Subst.get?] at h) ex_match).2.2.1

/-- (5, completeness) If some substitution `σ` with variable-free well-formed range extends `m`
(up to `tyEq`) and instantiates the well-formed pattern `p` to a type structurally equal to the
variable-free well-formed `g`, then `unify fuel p g m` succeeds for every `fuel ≥ sizeOf g`, and
the result substitution is still contained in `σ` (up to `tyEq`). -/
theorem match_complete {fuel : Nat} {p g : Ty} {m σ : Subst}
    (hg : slotFree g = true) (hgw : g.wf = true) (hp : p.wf = true)
    (hm : ∀ n k, m.get? n = some k → slotFree k = true ∧ k.wf = true)
    (hσ : ∀ n k, σ.get? n = some k → slotFree k = true ∧ k.wf = true)
    (hle : ∀ n k, m.get? n = some k → ∃ k', σ.get? n = some k' ∧ tyEq k k' = true)
    (hinst : ∃ fuel' p', applySubst fuel' σ p = .ok p' ∧ StructEq p' g)
    (hf : sizeOf g ≤ fuel) :
    ∃ t m', unify fuel p g m = .ok (t, m') ∧
      (∀ n k, m'.get? n = some k → ∃ k', σ.get? n = some k' ∧ tyEq k k' = true) :=
  match_complete' hg hgw hp hm hσ hle hinst hf

theorem ex_ground : ∀ n k, Subst.get? [("a", Ty.num)] n = some k →
    slotFree k = true ∧ k.wf = true := by
  intro n k h
  simp only [Subst.get?] at h
  split at h
  · cases h; exact ⟨rfl, rfl⟩
  · cases h

/-- non-vacuity of `match_complete`: `σ = ['a := num]` instantiates `list['a]` to `list[num]`. -/
example : ∃ t m', unify 3 (.list (.var "a")) (.list .num) [] = .ok (t, m') ∧
    (∀ n k, m'.get? n = some k → ∃ k', Subst.get? [("a", Ty.num)] n = some k' ∧
      tyEq k k' = true) :=
  match_complete (σ := [("a", .num)]) (by decide) (by decide) (by decide)
    (by intro n k h; simp [Subst.get?] at h) ex_ground
    (by intro n k h; simp [Subst.get?] at h)
    ⟨1, .list .num, by simp [applySubst, Subst.get?], StructEq.refl _⟩ (by decide)

/-- The two directions meet only up to the `⊤`/`⊥` relaxation: soundness yields `⊑`, completeness
needs `StructEq`.  This is inherent in `unify`: with `⊑` in the hypothesis completeness is false.
`('a, 'a)` has the instance `(num, num) ⊑ (⊥, num)` but does not unify with `(⊥, num)`, because
`'a` is first bound to `⊥` and `tyEq ⊥ num` is false. -/
example :
    (Ty.tuple (.cons .num (.cons .num .nil))) ⊑ (Ty.tuple (.cons .bot (.cons .num .nil))) ∧
    unify 3 (.tuple (.cons (.var "a") (.cons (.var "a") .nil)))
      (.tuple (.cons .bot (.cons .num .nil))) [] = .error .fail := by
  refine ⟨.tuple (.cons (.botR _) (.cons .num .nil)), ?_⟩
  rw [unify_nonvar _ _ _ _ (by decide) (by decide)]
  simp [Ty.isPrimitive, Ty.isComposite, Ty.kind, Kind.isPrimitive, Kind.isComposite,
    unifyComposite, TyList.length, unifyList]
  rw [unify_var_left _ _ _ _ (by decide)]
  simp [applySubst, freeFrom, Subst.get?, Subst.set]
  rw [unify_var_left _ _ _ _ (by decide)]
  simp [applySubst, freeFrom, Subst.get?, Subst.set, tyEq]
  rfl

/-! ## 6  fuel -/

/-- (6) Against a variable-free well-formed `g`, with `m` binding variables to variable-free
well-formed types, `unify` never runs out of fuel when given at least `sizeOf g`. -/
theorem unify_fuel_sufficient {fuel : Nat} {p g : Ty} {m : Subst}
    (hg : slotFree g = true) (hgw : g.wf = true)
    (hm : ∀ n k, m.get? n = some k → slotFree k = true ∧ k.wf = true)
    (hf : sizeOf g ≤ fuel) : unify fuel p g m ≠ .error .fuel :=
  ufuel fuel p g m hg hgw hm hf

/-- non-vacuity of `unify_fuel_sufficient` -/
example : unify 3 (.list (.var "a")) (.list .num) [("a", .num)] ≠ .error .fuel :=
  unify_fuel_sufficient (by decide) (by decide) ex_ground (by decide)

/-! ## the empty-container element type `⊥` -/

/-- `⊥` on the right unifies with every non-variable type and binds nothing. -/
theorem unify_bot_right (f : Nat) (p : Ty) (m : Subst) (hp : p.kind ≠ .tyvar) :
    unify (f+1) p .bot m = .ok (p, m) := unify_bot_right' f p m hp

/-- `⊥` on the left unifies with a non-variable type only if that is `⊥` too. -/
theorem unify_bot_left (f : Nat) (g : Ty) (m : Subst) (hg : g.kind ≠ .tyvar) :
    unify (f+1) .bot g m = if g.kind = .bot then .ok (.bot, m) else .error .fail :=
  unify_bot_left' f g m hg

example : unify 1 (.list (.var "a")) .bot [] = .ok (.list (.var "a"), []) :=
  unify_bot_right 0 _ _ (by decide)

example : unify 1 .bot .num [] = .error .fail := unify_bot_left 0 .num [] (by decide)
example : unify 1 .bot .bot [] = .ok (.bot, []) := unify_bot_left 0 .bot [] (by decide)

end Yae.C17

#print axioms Yae.C17.tyEq_refl
#print axioms Yae.C17.tyEq_symm
#print axioms Yae.C17.tyEq_trans
#print axioms Yae.C17.tyEq_iff_structEq
#print axioms Yae.C17.structEq_equivalence
#print axioms Yae.C17.match_sound
#print axioms Yae.C17.match_complete
#print axioms Yae.C17.unify_fuel_sufficient
#print axioms Yae.C17.unify_bot_right
#print axioms Yae.C17.unify_bot_left
