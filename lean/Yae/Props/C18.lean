/-
  C18  "Equality, map-key identity, set membership and rendering agree"

  Property-level statements; the proofs are in `Yae/Proofs/ValRel*.lean`.

  Everything that depends on IEEE arithmetic or on the shortest round-trip formatting algorithm is
  stated relative to an explicit hypothesis `F : FloatFacts` (`Yae/Proofs/ValRelEq.lean`); nothing
  is taken as an axiom.  `Float.toBits` is opaque to the kernel, so numeric facts are about the bit
  patterns `x.toBits`.

  What is NOT claimed (with kernel-checked counterexamples below):
  * `==` ⇒ same text fails for equal instants displayed in different zones, and for optionals
    whose element types are `tyEq` object types with permuted fields;
  * `Val.stringify` (the `string()` built-in) of objects follows declaration order;
  * reflexivity fails for NaN / ±Inf leaves (`|x - x|` is NaN) and, in the model, for function
    values (every occurrence is a distinct pointer);
  * "same text ⇒ `==`" for composite values (needs the unambiguity of the rendering grammar)
    is not proved here; it is proved for numbers, strings and booleans.
-/
import Yae.Proofs.ValRelPrim
import Yae.Proofs.ValRelSet
namespace Yae.C18
open Yae

/-! ## sample values for the non-vacuity examples (no numbers: `Float` does not compute) -/

def m1 : Val := .map (.map .str .bool)
  (.cons .str "\"a\"" (.bool true) (.cons .str "\"b\"" (.bool false) .nil))
def m2 : Val := .map (.map .str .bool)
  (.cons .str "\"b\"" (.bool false) (.cons .str "\"a\"" (.bool true) .nil))
def o1 : Val := .obj (.obj (.cons "a" .bool (.cons "b" .str .nil)))
  (.cons (.bool true) (.cons (.str "x") .nil))
def o2 : Val := .obj (.obj (.cons "b" .str (.cons "a" .bool .nil)))
  (.cons (.str "x") (.cons (.bool true) .nil))

theorem m1_wf : m1.WF := by
  simp [m1, Val.WF, Val.All, EntryList.All, Val.LocalWF, EntryList.keys, EntryList.toList, Ty.wf,
    Ty.keyable, Ty.isPrimitive, Ty.kind, Kind.isPrimitive]
theorem m2_wf : m2.WF := by
  simp [m2, Val.WF, Val.All, EntryList.All, Val.LocalWF, EntryList.keys, EntryList.toList, Ty.wf,
    Ty.keyable, Ty.isPrimitive, Ty.kind, Kind.isPrimitive]
theorem o1_wf : o1.WF := by
  simp [o1, Val.WF, Val.All, ValList.All, Val.LocalWF, Ty.wf, wfFields, FieldList.find?,
    FieldList.length, ValList.length]
theorem o2_wf : o2.WF := by
  simp [o2, Val.WF, Val.All, ValList.All, Val.LocalWF, Ty.wf, wfFields, FieldList.find?,
    FieldList.length, ValList.length]
theorem m1_selfEq : m1.SelfEq := by
  simp [m1, Val.SelfEq, Val.All, EntryList.All, Val.LocalSelfEq]
theorem sep_m1_m2 : Sep m1 m2 := by
  refine Sep.map ?_
  intro t k v w h1 h2
  have h1 := EntryList.find?_some_mem _ _ _ _ h1
  have h2 := EntryList.find?_some_mem _ _ _ _ h2
  simp [EntryList.toList] at h1 h2
  rcases h1 with ⟨_, _, rfl⟩ | ⟨_, _, rfl⟩ <;> rcases h2 with ⟨_, _, rfl⟩ | ⟨_, _, rfl⟩ <;>
    constructor
theorem sep_o1_o2 : Sep o1 o2 := by
  refine Sep.obj ?_
  intro n v w h1 h2
  have h1 := objGet?_some_mem _ _ _ _ h1
  have h2 := objGet?_some_mem _ _ _ _ h2
  simp [objPairs, FieldList.names, ValList.toList] at h1 h2
  rcases h1 with ⟨rfl, rfl⟩ | ⟨rfl, rfl⟩ <;> rcases h2 with ⟨h, rfl⟩ | ⟨h, rfl⟩ <;>
    first | constructor | (exact absurd h (by decide))
theorem o1_eq_o2 : valEq o1 o2 = true := by
  simp [o1, o2, valEq_obj, tyEq, valEqFields, objGet?, FieldList.indexOf?, ValList.get?,
    FieldList.find?, tyEqFields, FieldList.length, ValList.length, valEq, Val.typeOf]

/-! ## 1  `==` is symmetric and (where it can be) reflexive -/

/-- `==` is symmetric on well-formed values.  Assumed IEEE fact: `F.numEQ_symm`
(`|x - y| = |y - x|`). -/
theorem valEq_symm (F : FloatFacts) {x y : Val} (hx : x.WF) (hy : y.WF) :
    valEq x y = valEq y x :=
  valEq_symm' F.numEQ_symm hx hy

/-- The same with the one IEEE fact it needs as a bare hypothesis. -/
theorem valEq_symm_of_numEQ_symm (NumEqSymm : ∀ a b : Float, numEQ a b = numEQ b a) {x y : Val}
    (hx : x.WF) (hy : y.WF) : valEq x y = valEq y x :=
  valEq_symm' NumEqSymm hx hy

example (F : FloatFacts) : valEq o1 o2 = valEq o2 o1 := valEq_symm F o1_wf o2_wf

/-- A well-formed value is `==` to itself exactly when every number inside is within tolerance
of itself and no function value occurs inside.
Remark (not provable in the kernel, `Float` is opaque): for `x` = NaN or ±Inf, `|x - x|` is NaN
and `NaN < ε` is false, so such leaves are not self-equal; the theorem does not claim it. -/
theorem valEq_refl_iff {v : Val} (hv : v.WF) : valEq v v = true ↔ v.SelfEq :=
  valEq_refl_iff' v hv

theorem valEq_refl {v : Val} (hv : v.WF) (hs : v.SelfEq) : valEq v v = true :=
  (valEq_refl_iff hv).2 hs

example : valEq m1 m1 = true := valEq_refl m1_wf m1_selfEq

/-- function values are never `==` (model: distinct occurrences are distinct pointers) -/
theorem fn_not_self_equal (ty : Ty) (r : FunRef) (l : Bool) :
    valEq (.fn ty r l) (.fn ty r l) = false := by simp [valEq]

/-! ## 2  rendering is canonical -/

/-- Rendering a map value does not depend on the insertion order of its entries. -/
theorem render_map_perm {ty : Ty} {es₁ es₂ : EntryList} (hp : es₁.toList.Perm es₂.toList)
    (hnd : es₁.keyTexts.Nodup) : Val.render (.map ty es₁) = Val.render (.map ty es₂) :=
  render_map_perm' hp hnd

/-- the key texts are pairwise distinct in every well-formed map value (distinct keys, one tag) -/
theorem wf_map_keyTexts_nodup {ty : Ty} {es : EntryList} (h : (Val.map ty es).WF) :
    es.keyTexts.Nodup := by
  have := (Val.all_map.1 h).1
  simp only [Val.LocalWF] at this
  obtain ⟨_, hnd, k, v, _, ht⟩ := this
  exact EntryList.keyTexts_nodup_of_tag ht hnd

theorem render_map_perm_wf {ty : Ty} {es₁ es₂ : EntryList} (h : (Val.map ty es₁).WF)
    (hp : es₁.toList.Perm es₂.toList) : Val.render (.map ty es₁) = Val.render (.map ty es₂) :=
  render_map_perm' hp (wf_map_keyTexts_nodup h)

example : m1.render = m2.render :=
  render_map_perm_wf m1_wf (by simp [EntryList.toList]; exact List.Perm.swap _ _ _)

/-- Distinct key *texts* are needed: a (never well-typed) map with a string key and a time key of
the same text renders in insertion order. -/
example :
    Val.render (.map (.map .str .bool)
      (.cons .str "\"k\"" (.bool true) (.cons .time "\"k\"" (.bool false) .nil))) ≠
    Val.render (.map (.map .str .bool)
      (.cons .time "\"k\"" (.bool false) (.cons .str "\"k\"" (.bool true) .nil))) := by decide

/-- `==` on maps does not depend on the insertion order. -/
theorem valEq_map_perm {ty : Ty} {es₁ es₂ : EntryList} (hp : es₁.toList.Perm es₂.toList)
    (hnd : es₁.keys.Nodup) (hself : valEq (.map ty es₁) (.map ty es₁) = true) :
    valEq (.map ty es₁) (.map ty es₂) = true :=
  valEq_map_perm' hp hnd hself

example : valEq m1 m2 = true :=
  valEq_map_perm (by simp [EntryList.toList]; exact List.Perm.swap _ _ _)
    (by simp [EntryList.keys, EntryList.toList]) (valEq_refl m1_wf m1_selfEq)

/-- Rendering an object depends only on the set of (field name, value) pairs. -/
theorem render_obj_perm {fs₁ fs₂ : FieldList} {vs₁ vs₂ : ValList}
    (hp : (objPairs fs₁ vs₁).Perm (objPairs fs₂ vs₂)) (hnd : fs₁.names.Nodup) :
    Val.render (.obj (.obj fs₁) vs₁) = Val.render (.obj (.obj fs₂) vs₂) :=
  render_obj_perm' hp hnd

example : o1.render = o2.render :=
  render_obj_perm (by simp [objPairs, FieldList.names, ValList.toList]; exact List.Perm.swap _ _ _)
    (by simp [FieldList.names])

/-! ## 3  `==` ⇒ same text -/

/- Full statement (FALSE for the model and for the implementation):
     `x.WF → y.WF → (numeric leaves identical or separated) → valEq x y = true → x.render = y.render`.
   Counterexamples: -/

/-- equal instants displayed in different zones are `==` but render differently
(`val.Equals` uses `time.Equal`, `String()` prints the zone) -/
theorem time_equal_render_differs :
    valEq (.time ⟨0, 0, 0, "UTC"⟩) (.time ⟨0, 0, 3600, "CET"⟩) = true ∧
    (Val.time ⟨0, 0, 0, "UTC"⟩).render ≠ (Val.time ⟨0, 0, 3600, "CET"⟩).render ∧
    (Val.time ⟨0, 0, 0, "UTC"⟩).key? ≠ (Val.time ⟨0, 0, 3600, "CET"⟩).key? := by
  refine ⟨by simp [valEq, Val.typeOf, tyEq, TimeV.equal], by decide, by decide⟩

/-- optionals over `tyEq` object types with permuted fields are `==` but render differently
(`(*Type).String()` lists object fields in declaration order) -/
theorem nothing_equal_render_differs :
    valEq (.nothing (.obj (.cons "a" .num (.cons "b" .num .nil))))
          (.nothing (.obj (.cons "b" .num (.cons "a" .num .nil)))) = true ∧
    (Val.nothing (.obj (.cons "a" .num (.cons "b" .num .nil)))).render ≠
    (Val.nothing (.obj (.cons "b" .num (.cons "a" .num .nil)))).render := by
  refine ⟨by simp [valEq, Val.typeOf, tyEq, tyEqFields, FieldList.find?, FieldList.length],
    by decide⟩

/-- Under the weakest hypothesis excluding both (`Sep` asks, besides the separation of numbers,
that equal instants are displayed in the same zone and that `tyEq` element types of optionals
render alike): well-formed values that are `==` render to the same text. -/
theorem equal_imp_same_text_partial {x y : Val} (hx : x.WF) (hy : y.WF) (hs : Sep x y)
    (h : valEq x y = true) : x.render = y.render :=
  valEq_imp_render' x y hx hy hs h

example : o1.render = o2.render := equal_imp_same_text_partial o1_wf o2_wf sep_o1_o2 o1_eq_o2

/-- … hence they count as the same element in `union` / `intersect` / `diff`
(set membership is by rendering). -/
theorem equal_imp_same_set_element {x y : Val} (hx : x.WF) (hy : y.WF) (hs : Sep x y)
    (h : valEq x y = true) (s : List (String × Val)) : setHas s x.render = setHas s y.render := by
  rw [equal_imp_same_text_partial hx hy hs h]

example (s : List (String × Val)) : setHas s o1.render = setHas s o2.render :=
  equal_imp_same_set_element o1_wf o2_wf sep_o1_o2 o1_eq_o2 s

/-- the two ways a pair of numbers is "separated": identical (and within tolerance of itself,
i.e. not NaN / ±Inf) … -/
theorem sep_num_identical {a b : Float} (hb : a.toBits = b.toBits) (hs : numEQ a b = true) :
    Sep (.num a) (.num b) :=
  Sep.num ⟨fun _ => hb, fun _ => hs⟩

/-- … or different and further apart than the tolerance. -/
theorem sep_num_apart {a b : Float} (hb : a.toBits ≠ b.toBits) (hs : numEQ a b = false) :
    Sep (.num a) (.num b) :=
  Sep.num ⟨fun h => by rw [hs] at h; exact absurd h (by decide), fun h => absurd h hb⟩

/-! ## 4  numbers, strings, booleans: `==` ⇔ same text ⇔ same map key -/

/-- For separated numbers (and for strings and booleans): `==` holds exactly when the renderings
are equal.  Assumed: `F.fmtFloat_injective`, `F.fmtInt_ne_fmtFloat`, `F.nan_bits_unique`,
`F.numEQ_zeros`. -/
theorem prim_equal_iff_same_text (F : FloatFacts) {x y : Val} (hp : x.isNSB) (hs : Sep x y) :
    valEq x y = true ↔ x.render = y.render :=
  prim_valEq_iff_render F hp hs

/-- … and exactly when they are the same map key. -/
theorem prim_equal_iff_same_key (F : FloatFacts) {x y : Val} (hp : x.isNSB) (hs : Sep x y) :
    valEq x y = true ↔ x.key? = y.key? :=
  prim_valEq_iff_key F hp hs

/-- same text ⇔ same key needs no assumption -/
theorem prim_same_text_iff_same_key {x y : Val} (hp : x.isNSB) (hs : Sep x y) :
    x.render = y.render ↔ x.key? = y.key? :=
  prim_render_iff_key hp hs

example (F : FloatFacts) : valEq (.str "a") (.str "b") = true ↔
    (Val.str "a").key? = (Val.str "b").key? :=
  prim_equal_iff_same_key F trivial (Sep.str _ _)

/-- equal instants displayed in the same zone are the same key -/
theorem time_equal_imp_same_key {a b : TimeV} (hs : Sep (.time a) (.time b))
    (h : valEq (.time a) (.time b) = true) : (Val.time a).key? = (Val.time b).key? :=
  time_valEq_imp_key hs h

example : (Val.time ⟨5, 0, 0, "UTC"⟩).key? = (Val.time ⟨5, 0, 0, "UTC"⟩).key? :=
  time_equal_imp_same_key (Sep.time (fun _ => ⟨rfl, rfl⟩))
    (by simp [valEq, Val.typeOf, tyEq, TimeV.equal])

/-- `m[x]` and `m[y]` select the same entry when `x == y`. -/
theorem equal_keys_select_same_entry (F : FloatFacts) {x y : Val} (hp : x.isNSB) (hs : Sep x y)
    (h : valEq x y = true) (es : EntryList) {t t' : Kind} {k k' : String}
    (hx : x.key? = some (t, k)) (hy : y.key? = some (t', k')) :
    es.find? t k = es.find? t' k' := by
  have := (prim_valEq_iff_key F hp hs).1 h
  rw [hx, hy] at this
  cases this; rfl

example (F : FloatFacts) (es : EntryList) : es.find? .bool "true" = es.find? .bool "true" :=
  equal_keys_select_same_entry F (x := .bool true) (y := .bool true) trivial (Sep.bool _ _)
    (by simp [valEq, Val.typeOf, tyEq]) es rfl rfl

/-! ## 5  distinct numbers never render alike or collide as keys -/

/-- Bit level: two doubles that render alike are bit-identical or are `+0` and `-0`
(NaN payloads are not observable through `Float.toBits`). -/
theorem numbers_render_apart (F : FloatFacts) (x y : Float)
    (h : Num.renderNum x = Num.renderNum y) :
    x.toBits = y.toBits ∨ (Num.bitsIsZero x.toBits = true ∧ Num.bitsIsZero y.toBits = true) :=
  renderNum_inj F x y h

/-- the same for map keys -/
theorem numbers_keys_apart (F : FloatFacts) (x y : Float)
    (h : (Val.num x).key? = (Val.num y).key?) :
    x.toBits = y.toBits ∨ (Num.bitsIsZero x.toBits = true ∧ Num.bitsIsZero y.toBits = true) := by
  simp only [Val.key?, Option.some.injEq, Prod.mk.injEq, true_and] at h
  exact renderNum_inj F x y h

/-- Unconditionally (no `FloatFacts`): integral doubles inside the int64 range (`isIntBits`: up to
`2^63`, far beyond `2^53`) render apart — equal renderings mean bit-identical, or `+0` / `-0`. -/
theorem int_range_numbers_render_apart (a b : UInt64) (ha : Num.isIntBits a = true)
    (hb : Num.isIntBits b = true) (h : Num.renderNumBits a = Num.renderNumBits b) :
    a = b ∨ (Num.bitsIsZero a = true ∧ Num.bitsIsZero b = true) :=
  Num.renderNumBits_int_injective a b ha hb h

/-- `int64(x)` is injective on those doubles (so they do not collide as keys either). -/
theorem toInt64_injective (a b : UInt64) (ha : Num.isIntBits a = true)
    (hb : Num.isIntBits b = true) (h : Num.toInt64Bits a = Num.toInt64Bits b) :
    a = b ∨ (Num.bitsIsZero a = true ∧ Num.bitsIsZero b = true) :=
  Num.toInt64Bits_injective a b ha hb h

example : Num.isIntBits (Num.intToBits 7) = true := by decide

/-- Unconditionally (no `FloatFacts`): integers of magnitude below `2^53` render apart. -/
theorem small_ints_render_apart (a b : Int) (ha : a.natAbs < 2 ^ 53) (hb : b.natAbs < 2 ^ 53)
    (h : Num.renderNumBits (Num.intToBits a) = Num.renderNumBits (Num.intToBits b)) : a = b :=
  Num.renderNumBits_intToBits_injective a b ha hb h

example : (3 : Int) = 3 := small_ints_render_apart 3 3 (by decide) (by decide) rfl

/-- The pinned tree's rendering (integral ⇒ through `int64`) did collide: every integral double
beyond the int64 range, and ±Inf, rendered as `-9223372036854775808`; the current rule
(`isIntBits` = integral *and* in range) is what `renderNumBits` uses. -/
theorem pinned_rendering_agrees_in_range (b : UInt64) (h : Num.isIntBits b = true) :
    Num.renderNumPinnedBits b = Num.renderNumBits b :=
  Num.renderNumPinnedBits_eq b h

/-! ## axioms -/
#print axioms valEq_symm
#print axioms valEq_symm_of_numEQ_symm
#print axioms valEq_refl_iff
#print axioms valEq_refl
#print axioms fn_not_self_equal
#print axioms render_map_perm
#print axioms wf_map_keyTexts_nodup
#print axioms render_map_perm_wf
#print axioms valEq_map_perm
#print axioms render_obj_perm
#print axioms time_equal_render_differs
#print axioms nothing_equal_render_differs
#print axioms equal_imp_same_text_partial
#print axioms equal_imp_same_set_element
#print axioms sep_num_identical
#print axioms sep_num_apart
#print axioms prim_equal_iff_same_text
#print axioms prim_equal_iff_same_key
#print axioms prim_same_text_iff_same_key
#print axioms time_equal_imp_same_key
#print axioms equal_keys_select_same_entry
#print axioms numbers_render_apart
#print axioms numbers_keys_apart
#print axioms int_range_numbers_render_apart
#print axioms toInt64_injective
#print axioms small_ints_render_apart
#print axioms pinned_rendering_agrees_in_range

end Yae.C18
