/-
  C18  "Equality, map-key identity, set membership and rendering agree"

  Property-level statements; the proofs are in `Yae/Proofs/ValRel*.lean`.

  Everything that depends on IEEE arithmetic or on the shortest round-trip formatting algorithm is
  stated relative to an explicit hypothesis `F : FloatFacts` (`Yae/Proofs/ValRelEq.lean`); nothing
  is taken as an axiom.  `Float.toBits` is opaque to the kernel, so numeric facts are about the bit
  patterns `x.toBits`.

  What is NOT claimed (with kernel-checked counterexamples below):
  * `==` ⇒ same text fails for equal instants displayed in different zones, and for optionals
    whose element types are `tyEq` object types with permuted fields;
  * `Val.stringify` (the `string()` built-in) of objects follows declaration order;
  * reflexivity fails for NaN / ±Inf leaves (`|x - x|` is NaN) and, in the model, for function
    values (every occurrence is a distinct pointer).

  "Same text ⇒ `==`" (§6, `same_text_imp_equal`) is proved for ALL kinds of values — the
  rendering grammar is unambiguous on values of one type — under hypotheses each of which is
  shown necessary by a kernel-checked counterexample (§7), except where noted:
  * the two values have `tyEq` types, and their components conform to the declared component
    types (`Val.Typed`): object field names are arbitrary strings, so `{a: true, b: false}` is
    also the text of an object with the single field `a: true, b`; `[]` is the text of the empty
    list of every type;
  * map key texts are the ones `Key()` computes (`KeyGenuine`; the model stores arbitrary strings);
  * no function values (never `==`, but they do render);
  * instants: the zone abbreviation contains none of `,` `]` `}` `)` (the counterexample also
    violates the display clause of `Sep` for instants, which the proof does not use; with that
    clause the condition may be redundant); the zone offset is a whole
    number of minutes (`Time.String()` does not print offset seconds: two different instants in
    zones `+00:00:01` and `+00:00:00` print alike — this is Go's behaviour, not only the
    model's); nanoseconds below `10^9`; the displayed date is not before 0000-03-01 (a limit of
    the MODEL, inside its documented range of years 0..9999: `civilFromDays` is one day off
    before 0000-02-29 — 0000-02-28 and 0000-02-29 both print as `0000-02-29` — because Lean's `/`
    on `Int` rounds down where Hinnant's formula expects truncation; and `TimeV.render` prints
    every negative year as `0000`);
  * `Sep x y`: numbers bit-identical or not within tolerance (excludes NaN / ±Inf leaves, whose
    texts `NaN` / `+Inf` are equal to themselves while the values are not `==`; not checkable in
    the kernel, `Float` is opaque).  The clause of
    `Sep` about the element types of optionals (`tyEq` ⇒ same type text) is used to avoid parsing
    type texts (type variable / function / field names are arbitrary strings); no
    counterexample is known for it in this direction.
  The numeric leaf case alone uses `FloatFacts`; for values without numbers
  (`same_text_imp_equal_no_numbers`) nothing is assumed.
-/
import Yae.Proofs.ValRelPrim
import Yae.Proofs.ValRelSet
import Yae.Proofs.ValRelTextCor
namespace Yae.C18
open Yae

/-! ## sample values for the non-vacuity examples (no numbers: `Float` does not compute) -/

def m1 : Val := .map (.map .str .bool)
  (.cons .str "\"a\"" (.bool true) (.cons .str "\"b\"" (.bool false) .nil))
def m2 : Val := .map (.map .str .bool)
  (.cons .str "\"b\"" (.bool false) (.cons .str "\"a\"" (.bool true) .nil))
def o1 : Val := .obj (.obj (.cons "a" .bool (.cons "b" .str .nil)))
  (.cons (.bool true) (.cons (.str "x") .nil))
def o2 : Val := .obj (.obj (.cons "b" .str (.cons "a" .bool .nil)))
  (.cons (.str "x") (.cons (.bool true) .nil))

theorem m1_wf : m1.WF := by
  simp [m1, Val.WF, Val.All, EntryList.All, Val.LocalWF, EntryList.keys, EntryList.toList, Ty.wf,
    Ty.keyable, Ty.isPrimitive, Ty.kind, Kind.isPrimitive]
theorem m2_wf : m2.WF := by
  simp [m2, Val.WF, Val.All, EntryList.All, Val.LocalWF, EntryList.keys, EntryList.toList, Ty.wf,
    Ty.keyable, Ty.isPrimitive, Ty.kind, Kind.isPrimitive]
theorem o1_wf : o1.WF := by
  simp [o1, Val.WF, Val.All, ValList.All, Val.LocalWF, Ty.wf, wfFields, FieldList.find?,
    FieldList.length, ValList.length]
theorem o2_wf : o2.WF := by
  simp [o2, Val.WF, Val.All, ValList.All, Val.LocalWF, Ty.wf, wfFields, FieldList.find?,
    FieldList.length, ValList.length]
theorem m1_selfEq : m1.SelfEq := by
  simp [m1, Val.SelfEq, Val.All, EntryList.All, Val.LocalSelfEq]
theorem sep_m1_m2 : Sep m1 m2 := by
  refine Sep.map ?_
  intro t k v w h1 h2
  have h1 := EntryList.find?_some_mem _ _ _ _ h1
  have h2 := EntryList.find?_some_mem _ _ _ _ h2
  simp [EntryList.toList] at h1 h2
  rcases h1 with ⟨_, _, rfl⟩ | ⟨_, _, rfl⟩ <;> rcases h2 with ⟨_, _, rfl⟩ | ⟨_, _, rfl⟩ <;>
    constructor
theorem sep_o1_o2 : Sep o1 o2 := by
  refine Sep.obj ?_
  intro n v w h1 h2
  have h1 := objGet?_some_mem _ _ _ _ h1
  have h2 := objGet?_some_mem _ _ _ _ h2
  simp [objPairs, FieldList.names, ValList.toList] at h1 h2
  rcases h1 with ⟨rfl, rfl⟩ | ⟨rfl, rfl⟩ <;> rcases h2 with ⟨h, rfl⟩ | ⟨h, rfl⟩ <;>
    first | constructor | (exact absurd h (by decide))
theorem o1_eq_o2 : valEq o1 o2 = true := by
  simp [o1, o2, valEq_obj, tyEq, valEqFields, objGet?, FieldList.indexOf?, ValList.get?,
    FieldList.find?, tyEqFields, FieldList.length, ValList.length, valEq, Val.typeOf]

/-! ## 1  `==` is symmetric and (where it can be) reflexive -/

/-- `==` is symmetric on well-formed values.  Assumed IEEE fact: `F.numEQ_symm`
(`|x - y| = |y - x|`). -/
theorem valEq_symm (F : FloatFacts) {x y : Val} (hx : x.WF) (hy : y.WF) :
    valEq x y = valEq y x :=
  valEq_symm' F.numEQ_symm hx hy

/-- The same with the one IEEE fact it needs as a bare hypothesis. -/
theorem valEq_symm_of_numEQ_symm (NumEqSymm : ∀ a b : Float, numEQ a b = numEQ b a) {x y : Val}
    (hx : x.WF) (hy : y.WF) : valEq x y = valEq y x :=
  valEq_symm' NumEqSymm hx hy

example (F : FloatFacts) : valEq o1 o2 = valEq o2 o1 := valEq_symm F o1_wf o2_wf

/-- A well-formed value is `==` to itself exactly when every number inside is within tolerance
of itself and no function value occurs inside.
Remark (not provable in the kernel, `Float` is opaque): for `x` = NaN or ±Inf, `|x - x|` is NaN
and `NaN < ε` is false, so such leaves are not self-equal; the theorem does not claim it. -/
theorem valEq_refl_iff {v : Val} (hv : v.WF) : valEq v v = true ↔ v.SelfEq :=
  valEq_refl_iff' v hv

theorem valEq_refl {v : Val} (hv : v.WF) (hs : v.SelfEq) : valEq v v = true :=
  (valEq_refl_iff hv).2 hs

example : valEq m1 m1 = true := valEq_refl m1_wf m1_selfEq

/-- function values are never `==` (model: distinct occurrences are distinct pointers) -/
theorem fn_not_self_equal (ty : Ty) (r : FunRef) (l : Bool) :
    valEq (.fn ty r l) (.fn ty r l) = false := by simp [valEq]

/-! ## 2  rendering is canonical -/

/-- Rendering a map value does not depend on the insertion order of its entries. -/
theorem render_map_perm {ty : Ty} {es₁ es₂ : EntryList} (hp : es₁.toList.Perm es₂.toList)
    (hnd : es₁.keyTexts.Nodup) : Val.render (.map ty es₁) = Val.render (.map ty es₂) :=
  render_map_perm' hp hnd

/-- the key texts are pairwise distinct in every well-formed map value (distinct keys, one tag) -/
theorem wf_map_keyTexts_nodup {ty : Ty} {es : EntryList} (h : (Val.map ty es).WF) :
    es.keyTexts.Nodup := by
  have := (Val.all_map.1 h).1
  simp only [Val.LocalWF] at this
  obtain ⟨_, hnd, k, v, _, ht⟩ := this
  exact EntryList.keyTexts_nodup_of_tag ht hnd

theorem render_map_perm_wf {ty : Ty} {es₁ es₂ : EntryList} (h : (Val.map ty es₁).WF)
    (hp : es₁.toList.Perm es₂.toList) : Val.render (.map ty es₁) = Val.render (.map ty es₂) :=
  render_map_perm' hp (wf_map_keyTexts_nodup h)

example : m1.render = m2.render :=
  render_map_perm_wf m1_wf (by simp [EntryList.toList]; exact List.Perm.swap _ _ _)

/-- Distinct key *texts* are needed: a (never well-typed) map with a string key and a time key of
the same text renders in insertion order. -/
example :
    Val.render (.map (.map .str .bool)
      (.cons .str "\"k\"" (.bool true) (.cons .time "\"k\"" (.bool false) .nil))) ≠
    Val.render (.map (.map .str .bool)
      (.cons .time "\"k\"" (.bool false) (.cons .str "\"k\"" (.bool true) .nil))) := by decide

/-- `==` on maps does not depend on the insertion order. -/
theorem valEq_map_perm {ty : Ty} {es₁ es₂ : EntryList} (hp : es₁.toList.Perm es₂.toList)
    (hnd : es₁.keys.Nodup) (hself : valEq (.map ty es₁) (.map ty es₁) = true) :
    valEq (.map ty es₁) (.map ty es₂) = true :=
  valEq_map_perm' hp hnd hself

example : valEq m1 m2 = true :=
  valEq_map_perm (by simp [EntryList.toList]; exact List.Perm.swap _ _ _)
    (by simp [EntryList.keys, EntryList.toList]) (valEq_refl m1_wf m1_selfEq)

/-- Rendering an object depends only on the set of (field name, value) pairs. -/
theorem render_obj_perm {fs₁ fs₂ : FieldList} {vs₁ vs₂ : ValList}
    (hp : (objPairs fs₁ vs₁).Perm (objPairs fs₂ vs₂)) (hnd : fs₁.names.Nodup) :
    Val.render (.obj (.obj fs₁) vs₁) = Val.render (.obj (.obj fs₂) vs₂) :=
  render_obj_perm' hp hnd

example : o1.render = o2.render :=
  render_obj_perm (by simp [objPairs, FieldList.names, ValList.toList]; exact List.Perm.swap _ _ _)
    (by simp [FieldList.names])

/-! ## 3  `==` ⇒ same text -/

/- Full statement (FALSE for the model and for the implementation):
     `x.WF → y.WF → (numeric leaves identical or separated) → valEq x y = true → x.render = y.render`.
   Counterexamples: -/

/-- equal instants displayed in different zones are `==` but render differently
(`val.Equals` uses `time.Equal`, `String()` prints the zone) -/
theorem time_equal_render_differs :
    valEq (.time ⟨0, 0, 0, "UTC"⟩) (.time ⟨0, 0, 3600, "CET"⟩) = true ∧
    (Val.time ⟨0, 0, 0, "UTC"⟩).render ≠ (Val.time ⟨0, 0, 3600, "CET"⟩).render ∧
    (Val.time ⟨0, 0, 0, "UTC"⟩).key? ≠ (Val.time ⟨0, 0, 3600, "CET"⟩).key? := by
  refine ⟨by simp [valEq, Val.typeOf, tyEq, TimeV.equal], by decide, by decide⟩

/-- optionals over `tyEq` object types with permuted fields are `==` but render differently
(`(*Type).String()` lists object fields in declaration order) -/
theorem nothing_equal_render_differs :
    valEq (.nothing (.obj (.cons "a" .num (.cons "b" .num .nil))))
          (.nothing (.obj (.cons "b" .num (.cons "a" .num .nil)))) = true ∧
    (Val.nothing (.obj (.cons "a" .num (.cons "b" .num .nil)))).render ≠
    (Val.nothing (.obj (.cons "b" .num (.cons "a" .num .nil)))).render := by
  refine ⟨by simp [valEq, Val.typeOf, tyEq, tyEqFields, FieldList.find?, FieldList.length],
    by decide⟩

/-- Under the weakest hypothesis excluding both (`Sep` asks, besides the separation of numbers,
that equal instants are displayed in the same zone and that `tyEq` element types of optionals
render alike): well-formed values that are `==` render to the same text. -/
theorem equal_imp_same_text_partial {x y : Val} (hx : x.WF) (hy : y.WF) (hs : Sep x y)
    (h : valEq x y = true) : x.render = y.render :=
  valEq_imp_render' x y hx hy hs h

example : o1.render = o2.render := equal_imp_same_text_partial o1_wf o2_wf sep_o1_o2 o1_eq_o2

/-- … hence they count as the same element in `union` / `intersect` / `diff`
(set membership is by rendering). -/
theorem equal_imp_same_set_element {x y : Val} (hx : x.WF) (hy : y.WF) (hs : Sep x y)
    (h : valEq x y = true) (s : List (String × Val)) : setHas s x.render = setHas s y.render := by
  rw [equal_imp_same_text_partial hx hy hs h]

example (s : List (String × Val)) : setHas s o1.render = setHas s o2.render :=
  equal_imp_same_set_element o1_wf o2_wf sep_o1_o2 o1_eq_o2 s

/-- the two ways a pair of numbers is "separated": identical (and within tolerance of itself,
i.e. not NaN / ±Inf) … -/
theorem sep_num_identical {a b : Float} (hb : a.toBits = b.toBits) (hs : numEQ a b = true) :
    Sep (.num a) (.num b) :=
  Sep.num ⟨fun _ => hb, fun _ => hs⟩

/-- … or different and further apart than the tolerance. -/
theorem sep_num_apart {a b : Float} (hb : a.toBits ≠ b.toBits) (hs : numEQ a b = false) :
    Sep (.num a) (.num b) :=
  Sep.num ⟨fun h => by rw [hs] at h; exact absurd h (by decide), fun h => absurd h hb⟩

/-! ## 4  numbers, strings, booleans: `==` ⇔ same text ⇔ same map key -/

/-- For separated numbers (and for strings and booleans): `==` holds exactly when the renderings
are equal.  Assumed: `F.fmtFloat_injective`, `F.fmtInt_ne_fmtFloat`, `F.nan_bits_unique`,
`F.numEQ_zeros`. -/
theorem prim_equal_iff_same_text (F : FloatFacts) {x y : Val} (hp : x.isNSB) (hs : Sep x y) :
    valEq x y = true ↔ x.render = y.render :=
  prim_valEq_iff_render F hp hs

/-- … and exactly when they are the same map key. -/
theorem prim_equal_iff_same_key (F : FloatFacts) {x y : Val} (hp : x.isNSB) (hs : Sep x y) :
    valEq x y = true ↔ x.key? = y.key? :=
  prim_valEq_iff_key F hp hs

/-- same text ⇔ same key needs no assumption -/
theorem prim_same_text_iff_same_key {x y : Val} (hp : x.isNSB) (hs : Sep x y) :
    x.render = y.render ↔ x.key? = y.key? :=
  prim_render_iff_key hp hs

example (F : FloatFacts) : valEq (.str "a") (.str "b") = true ↔
    (Val.str "a").key? = (Val.str "b").key? :=
  prim_equal_iff_same_key F trivial (Sep.str _ _)

/-- equal instants displayed in the same zone are the same key -/
theorem time_equal_imp_same_key {a b : TimeV} (hs : Sep (.time a) (.time b))
    (h : valEq (.time a) (.time b) = true) : (Val.time a).key? = (Val.time b).key? :=
  time_valEq_imp_key hs h

example : (Val.time ⟨5, 0, 0, "UTC"⟩).key? = (Val.time ⟨5, 0, 0, "UTC"⟩).key? :=
  time_equal_imp_same_key (Sep.time (fun _ => ⟨rfl, rfl⟩))
    (by simp [valEq, Val.typeOf, tyEq, TimeV.equal])

/-- `m[x]` and `m[y]` select the same entry when `x == y`. -/
theorem equal_keys_select_same_entry (F : FloatFacts) {x y : Val} (hp : x.isNSB) (hs : Sep x y)
    (h : valEq x y = true) (es : EntryList) {t t' : Kind} {k k' : String}
    (hx : x.key? = some (t, k)) (hy : y.key? = some (t', k')) :
    es.find? t k = es.find? t' k' := by
  have := (prim_valEq_iff_key F hp hs).1 h
  rw [hx, hy] at this
  cases this; rfl

example (F : FloatFacts) (es : EntryList) : es.find? .bool "true" = es.find? .bool "true" :=
  equal_keys_select_same_entry F (x := .bool true) (y := .bool true) trivial (Sep.bool _ _)
    (by simp [valEq, Val.typeOf, tyEq]) es rfl rfl

/-! ## 5  distinct numbers never render alike or collide as keys -/

/-- Bit level: two doubles that render alike are bit-identical or are `+0` and `-0`
(NaN payloads are not observable through `Float.toBits`). -/
theorem numbers_render_apart (F : FloatFacts) (x y : Float)
    (h : Num.renderNum x = Num.renderNum y) :
    x.toBits = y.toBits ∨ (Num.bitsIsZero x.toBits = true ∧ Num.bitsIsZero y.toBits = true) :=
  renderNum_inj F x y h

/-- the same for map keys -/
theorem numbers_keys_apart (F : FloatFacts) (x y : Float)
    (h : (Val.num x).key? = (Val.num y).key?) :
    x.toBits = y.toBits ∨ (Num.bitsIsZero x.toBits = true ∧ Num.bitsIsZero y.toBits = true) := by
  simp only [Val.key?, Option.some.injEq, Prod.mk.injEq, true_and] at h
  exact renderNum_inj F x y h

/-- Unconditionally (no `FloatFacts`): integral doubles inside the int64 range (`isIntBits`: up to
`2^63`, far beyond `2^53`) render apart — equal renderings mean bit-identical, or `+0` / `-0`. -/
theorem int_range_numbers_render_apart (a b : UInt64) (ha : Num.isIntBits a = true)
    (hb : Num.isIntBits b = true) (h : Num.renderNumBits a = Num.renderNumBits b) :
    a = b ∨ (Num.bitsIsZero a = true ∧ Num.bitsIsZero b = true) :=
  Num.renderNumBits_int_injective a b ha hb h

/-- `int64(x)` is injective on those doubles (so they do not collide as keys either). -/
theorem toInt64_injective (a b : UInt64) (ha : Num.isIntBits a = true)
    (hb : Num.isIntBits b = true) (h : Num.toInt64Bits a = Num.toInt64Bits b) :
    a = b ∨ (Num.bitsIsZero a = true ∧ Num.bitsIsZero b = true) :=
  Num.toInt64Bits_injective a b ha hb h

example : Num.isIntBits (Num.intToBits 7) = true := by decide

/-- Unconditionally (no `FloatFacts`): integers of magnitude below `2^53` render apart. -/
theorem small_ints_render_apart (a b : Int) (ha : a.natAbs < 2 ^ 53) (hb : b.natAbs < 2 ^ 53)
    (h : Num.renderNumBits (Num.intToBits a) = Num.renderNumBits (Num.intToBits b)) : a = b :=
  Num.renderNumBits_intToBits_injective a b ha hb h

example : (3 : Int) = 3 := small_ints_render_apart 3 3 (by decide) (by decide) rfl

/-- The pinned tree's rendering (integral ⇒ through `int64`) did collide: every integral double
beyond the int64 range, and ±Inf, rendered as `-9223372036854775808`; the current rule
(`isIntBits` = integral *and* in range) is what `renderNumBits` uses. -/
theorem pinned_rendering_agrees_in_range (b : UInt64) (h : Num.isIntBits b = true) :
    Num.renderNumPinnedBits b = Num.renderNumBits b :=
  Num.renderNumPinnedBits_eq b h

/-! ## 6  same text ⇒ `==`: the rendering grammar is unambiguous on values of one type -/

/-- **Same text ⇒ `==`**, for all kinds of values (numbers, strings, booleans, instants, lists,
maps, objects, optionals, nested to any depth).  If two values
* have types that are equal (`types.Equals`) and are built in conformance with them (`Typed`),
* contain no function value, only genuine map keys and displayable instants (`TextOK`),
* and have corresponding numbers either bit-identical or not within tolerance (`Sep`),
then rendering to the same text makes them `==`.
Assumed (`F`, for number leaves only): `fmtFloat_injective`, `fmtInt_ne_fmtFloat`,
`nan_bits_unique`, `numEQ_zeros`. -/
theorem same_text_imp_equal (F : FloatFacts) {x y : Val} (hx : x.Typed) (hy : y.Typed)
    (hox : x.TextOK) (hoy : y.TextOK) (hty : tyEq x.typeOf y.typeOf = true) (hs : Sep x y)
    (h : x.render = y.render) : valEq x y = true :=
  render_imp_valEq F timeText ((Val.good_iff x).2 ⟨hx, hox⟩) ((Val.good_iff y).2 ⟨hy, hoy⟩)
    hty hs h

/-- The same for values without numbers: nothing about `Float` is assumed. -/
theorem same_text_imp_equal_no_numbers {x y : Val} (hx : x.Typed) (hy : y.Typed)
    (hox : x.TextOK) (hoy : y.TextOK) (hn : x.NoNum) (hty : tyEq x.typeOf y.typeOf = true)
    (hs : Sep x y) (h : x.render = y.render) : valEq x y = true :=
  render_imp_valEq_noNum timeText ((Val.good_iff x).2 ⟨hx, hox⟩) hn
    ((Val.good_iff y).2 ⟨hy, hoy⟩) hty hs h

/-- The underlying fact: the text of a value, followed by one of `,` `]` `}` `)` or by nothing,
determines where the value's text ends (and the value up to `==`). -/
theorem text_determines_value_and_rest (F : FloatFacts) {x y : Val} (hx : x.Typed) (hy : y.Typed)
    (hox : x.TextOK) (hoy : y.TextOK) (hty : tyEq x.typeOf y.typeOf = true) (hs : Sep x y)
    (s s' : List Char) (ht : Term stopV s) (ht' : Term stopV s')
    (h : x.render.toList ++ s = y.render.toList ++ s') : valEq x y = true ∧ s = s' :=
  text_unique (N := fun _ => True) (fun a _ => numTextInj_of_floatFacts F a) timeText x y
    ((Val.good_iff x).2 ⟨hx, hox⟩) (numsSat_true x) ((Val.good_iff y).2 ⟨hy, hoy⟩) hty hs s s'
    ht ht' h

/-- **`==` ⇔ same text**, for well-typed separated values of equal type. -/
theorem equal_iff_same_text (F : FloatFacts) {x y : Val} (hx : x.Typed) (hy : y.Typed)
    (hox : x.TextOK) (hoy : y.TextOK) (hty : tyEq x.typeOf y.typeOf = true) (hs : Sep x y) :
    valEq x y = true ↔ x.render = y.render :=
  ⟨equal_imp_same_text_partial hx.1 hy.1 hs, same_text_imp_equal F hx hy hox hoy hty hs⟩

/-- … and without the assumption on the types: `==` ⇔ equal types and same text. -/
theorem equal_iff_same_type_and_text (F : FloatFacts) {x y : Val} (hx : x.Typed) (hy : y.Typed)
    (hox : x.TextOK) (hoy : y.TextOK) (hs : Sep x y) :
    valEq x y = true ↔ (tyEq x.typeOf y.typeOf = true ∧ x.render = y.render) :=
  valEq_iff_render F ((Val.good_iff x).2 ⟨hx, hox⟩) ((Val.good_iff y).2 ⟨hy, hoy⟩) hs

theorem equal_iff_same_text_no_numbers {x y : Val} (hx : x.Typed) (hy : y.Typed)
    (hox : x.TextOK) (hoy : y.TextOK) (hn : x.NoNum) (hty : tyEq x.typeOf y.typeOf = true)
    (hs : Sep x y) : valEq x y = true ↔ x.render = y.render :=
  ⟨equal_imp_same_text_partial hx.1 hy.1 hs,
    same_text_imp_equal_no_numbers hx hy hox hoy hn hty hs⟩

/-! ### the same element in `union` / `intersect` / `diff` -/

/-- `x` is comparable with the members of `l`: they are well-typed values of `x`'s type that
satisfy the text conditions and are separated from `x` -/
def ComparableWith (x : Val) (l : List Val) : Prop :=
  ∀ v ∈ l, v.Typed ∧ v.TextOK ∧ tyEq x.typeOf v.typeOf = true ∧ Sep x v

theorem ComparableWith.comparable {x : Val} {l : List Val} (h : ComparableWith x l) :
    Comparable x l :=
  fun v hv => ⟨(Val.good_iff v).2 ⟨(h v hv).1, (h v hv).2.1⟩, (h v hv).2.2.1, (h v hv).2.2.2⟩

/-- The set functions key their elements by text (`valSetOf`).  An element is found in the set
of a list exactly when the list has an `==` element. -/
theorem set_member_iff_equal_element (F : FloatFacts) {x : Val} {ys : ValList} (hx : x.Typed)
    (hox : x.TextOK) (hl : ComparableWith x ys.toList) :
    setHas (valSetOf ys) x.render = true ↔ ∃ v ∈ ys.toList, valEq x v = true :=
  setHas_valSetOf_iff F ((Val.good_iff x).2 ⟨hx, hox⟩) hl.comparable

/-- Two elements are merged into one set element exactly when they are `==`. -/
theorem merged_iff_equal (F : FloatFacts) {x y : Val} (hx : x.Typed) (hy : y.Typed)
    (hox : x.TextOK) (hoy : y.TextOK) (hty : tyEq x.typeOf y.typeOf = true) (hs : Sep x y) :
    (valSetOf (.cons x (.cons y .nil))).length = 1 ↔ valEq x y = true :=
  valSetOf_pair_merged_iff F ((Val.good_iff x).2 ⟨hx, hox⟩) ((Val.good_iff y).2 ⟨hy, hoy⟩) hty hs

/-- `x` counts as an element of `union(xs, ys)` iff it is `==` to an element of `xs` or of `ys` -/
theorem union_has_iff (F : FloatFacts) {x : Val} {xs ys : ValList} (hx : x.Typed)
    (hox : x.TextOK) (hlx : ComparableWith x xs.toList) (hly : ComparableWith x ys.toList) :
    x.render ∈ renders (setUnion (valSetOf xs) (valSetOf ys)) ↔
      (∃ v ∈ xs.toList, valEq x v = true) ∨ (∃ v ∈ ys.toList, valEq x v = true) := by
  have hg := (Val.good_iff x).2 ⟨hx, hox⟩
  rw [mem_renders_union, render_mem_iff F hg hlx.comparable, render_mem_iff F hg hly.comparable]

/-- … of `intersect(xs, ys)` iff it is `==` to an element of `xs` and to one of `ys` -/
theorem intersect_has_iff (F : FloatFacts) {x : Val} {xs ys : ValList} (hx : x.Typed)
    (hox : x.TextOK) (hlx : ComparableWith x xs.toList) (hly : ComparableWith x ys.toList) :
    x.render ∈ renders (setIntersect (valSetOf xs) (valSetOf ys)) ↔
      (∃ v ∈ xs.toList, valEq x v = true) ∧ (∃ v ∈ ys.toList, valEq x v = true) := by
  have hg := (Val.good_iff x).2 ⟨hx, hox⟩
  rw [mem_renders_intersect, render_mem_iff F hg hlx.comparable,
    render_mem_iff F hg hly.comparable]

/-- … of `diff(xs, ys)` iff it is `==` to an element of `xs` and to none of `ys` -/
theorem diff_has_iff (F : FloatFacts) {x : Val} {xs ys : ValList} (hx : x.Typed)
    (hox : x.TextOK) (hlx : ComparableWith x xs.toList) (hly : ComparableWith x ys.toList) :
    x.render ∈ renders (setDiff (valSetOf xs) (valSetOf ys)) ↔
      (∃ v ∈ xs.toList, valEq x v = true) ∧ ¬ (∃ v ∈ ys.toList, valEq x v = true) := by
  have hg := (Val.good_iff x).2 ⟨hx, hox⟩
  rw [mem_renders_diff, render_mem_iff F hg hlx.comparable, render_mem_iff F hg hly.comparable]

/-! ### the same map entry -/

/-- Two keys (numbers, strings, booleans or instants) are the same map key exactly when they
are `==`. -/
theorem same_key_iff_equal (F : FloatFacts) {x y : Val} (hk : x.key?.isSome = true)
    (hox : x.TextOK) (hoy : y.TextOK) (hs : Sep x y) : x.key? = y.key? ↔ valEq x y = true :=
  key_eq_iff_valEq F hk hox hoy hs

/-- `m[x]` and `m[y]` select the same entry in every map exactly when `x == y`. -/
theorem select_same_entry_iff_equal (F : FloatFacts) {x y : Val} {t t' : Kind} {k k' : String}
    (hkx : x.key? = some (t, k)) (hky : y.key? = some (t', k')) (hox : x.TextOK)
    (hoy : y.TextOK) (hs : Sep x y) :
    (∀ es : EntryList, es.find? t k = es.find? t' k') ↔ valEq x y = true :=
  select_same_entry_iff F hkx hky hox hoy hs

/-- instants included: the text of an instant determines it -/
theorem time_same_text_imp_equal {a b : TimeV} (ha : a.TextOK) (hb : b.TextOK)
    (h : a.render = b.render) : a.equal b = true :=
  timeText.inj a b ha hb h

/-! ### non-vacuity: nested values whose strings contain the delimiters (no numbers, nothing
assumed) -/

def T1 : Ty := .obj (.cons "name" .str (.cons "tags" (.list .str) .nil))
def T2 : Ty := .obj (.cons "tags" (.list .str) (.cons "name" .str .nil))
def tags : Val :=
  .list (.list .str) (.cons (.str "]") (.cons (.str "\"") (.cons (.str ", ") .nil)))
def p1 : Val := .obj T1 (.cons (.str "a, b: c}") (.cons tags .nil))
def p2 : Val := .obj T2 (.cons tags (.cons (.str "a, b: c}") .nil))
/-- a list of two objects in one field order … -/
def l1 : Val := .list (.list T1) (.cons p1 (.cons p1 .nil))
/-- … and in the other -/
def l2 : Val := .list (.list T2) (.cons p2 (.cons p2 .nil))

example : l1.render =
    "[{name: \"a, b: c}\", tags: [\"]\", \"\\\"\", \", \"]}, {name: \"a, b: c}\", tags: [\"]\", \"\\\"\", \", \"]}]" := by
  decide

theorem l1_typed : l1.Typed := by
  refine ⟨?_, ?_⟩
  · simp [l1, p1, tags, T1, Val.WF, Val.All, ValList.All, Val.LocalWF, Ty.wf, wfFields,
      FieldList.find?, FieldList.length, ValList.length]
  · simp only [l1, p1, tags, T1, Val.All, ValList.All, localTyped_obj_cons, localTyped_obj_nil]
    simp [Val.LocalTyped, ValList.toList, Val.typeOf, tyEq, tyEqFields, FieldList.find?,
      FieldList.length]
theorem l2_typed : l2.Typed := by
  refine ⟨?_, ?_⟩
  · simp [l2, p2, tags, T2, Val.WF, Val.All, ValList.All, Val.LocalWF, Ty.wf, wfFields,
      FieldList.find?, FieldList.length, ValList.length]
  · simp only [l2, p2, tags, T2, Val.All, ValList.All, localTyped_obj_cons, localTyped_obj_nil]
    simp [Val.LocalTyped, ValList.toList, Val.typeOf, tyEq, tyEqFields, FieldList.find?,
      FieldList.length]
theorem l1_textOK : l1.TextOK := by
  simp [l1, p1, tags, Val.TextOK, Val.All, ValList.All, Val.LocalTextOK]
theorem l2_textOK : l2.TextOK := by
  simp [l2, p2, tags, Val.TextOK, Val.All, ValList.All, Val.LocalTextOK]
theorem l1_noNum : l1.NoNum := by
  simp [l1, p1, tags, Val.NoNum, Val.NumsSat, Val.All, ValList.All, Val.LocalNums]

theorem sep_tags : Sep tags tags := by
  refine Sep.list ?_
  intro i v w h1 h2
  have h1 := List.mem_of_getElem? h1
  have h2 := List.mem_of_getElem? h2
  simp only [ValList.toList, List.mem_cons, List.not_mem_nil, or_false] at h1 h2
  rcases h1 with rfl | rfl | rfl <;> rcases h2 with rfl | rfl | rfl <;> exact Sep.str _ _
theorem sep_p1_p2 : Sep p1 p2 := by
  refine Sep.obj ?_
  intro n v w h1 h2
  have h1 := objGet?_some_mem _ _ _ _ h1
  have h2 := objGet?_some_mem _ _ _ _ h2
  simp [objPairs, FieldList.names, ValList.toList] at h1 h2
  rcases h1 with ⟨rfl, rfl⟩ | ⟨rfl, rfl⟩ <;> rcases h2 with ⟨h, rfl⟩ | ⟨h, rfl⟩ <;>
    first | exact Sep.str _ _ | exact sep_tags | (exact absurd h (by decide))
theorem sep_l1_l2 : Sep l1 l2 := by
  refine Sep.list ?_
  intro i v w h1 h2
  have h1 := List.mem_of_getElem? h1
  have h2 := List.mem_of_getElem? h2
  simp only [ValList.toList, List.mem_cons, List.not_mem_nil, or_false, or_self] at h1 h2
  rw [h1, h2]; exact sep_p1_p2

/-- the two lists render alike, hence — by the theorem, not by computing `==` — they are `==` -/
example : valEq l1 l2 = true :=
  same_text_imp_equal_no_numbers l1_typed l2_typed l1_textOK l2_textOK l1_noNum (by decide)
    sep_l1_l2 (by decide)

example : valEq l1 l2 = true ↔ l1.render = l2.render :=
  equal_iff_same_text_no_numbers l1_typed l2_typed l1_textOK l2_textOK l1_noNum (by decide)
    sep_l1_l2

/-- maps: `m1` and `m2` (entries in different insertion order) have genuine string keys -/
theorem m1_typed : m1.Typed :=
  ⟨m1_wf, by simp [m1, Val.All, EntryList.All, Val.LocalTyped, EntryList.toList, Val.typeOf, tyEq]⟩
theorem m2_typed : m2.Typed :=
  ⟨m2_wf, by simp [m2, Val.All, EntryList.All, Val.LocalTyped, EntryList.toList, Val.typeOf, tyEq]⟩
theorem key_a : KeyGenuine .str "\"a\"" := ⟨.str "a", by decide⟩
theorem key_b : KeyGenuine .str "\"b\"" := ⟨.str "b", by decide⟩
theorem m1_textOK : m1.TextOK := by
  simp [m1, Val.TextOK, Val.All, EntryList.All, Val.LocalTextOK, EntryList.toList, key_a, key_b]
theorem m2_textOK : m2.TextOK := by
  simp [m2, Val.TextOK, Val.All, EntryList.All, Val.LocalTextOK, EntryList.toList, key_a, key_b]
theorem m1_noNum : m1.NoNum := by
  simp [m1, Val.NoNum, Val.NumsSat, Val.All, EntryList.All, Val.LocalNums]

example : valEq m1 m2 = true :=
  same_text_imp_equal_no_numbers m1_typed m2_typed m1_textOK m2_textOK m1_noNum (by decide)
    sep_m1_m2 (by decide)

/-- instants: a displayable instant, and two keys that are instants -/
theorem t5_textOK : (⟨5, 0, 0, "UTC"⟩ : TimeV).TextOK :=
  ⟨by decide, by decide, by decide, by decide⟩

example : (⟨5, 0, 0, "UTC"⟩ : TimeV).equal ⟨5, 0, 0, "UTC"⟩ = true :=
  time_same_text_imp_equal t5_textOK t5_textOK rfl

/-! ## 7  each hypothesis of `same_text_imp_equal` is needed

Every statement below exhibits two values that render to the same text and are not `==`; the
hypotheses of `same_text_imp_equal` other than the one named hold (they are part of the
statement where they are not evident; for the instants see the individual remarks). -/

/-- **equal types** are needed: `[]` is the text of the empty list of every type -/
theorem needs_equal_types_empty_lists :
    (Val.list (.list .str) .nil).Typed ∧ (Val.list (.list .bool) .nil).Typed ∧
    (Val.list (.list .str) .nil).TextOK ∧ (Val.list (.list .bool) .nil).TextOK ∧
    Sep (.list (.list .str) .nil) (.list (.list .bool) .nil) ∧
    (Val.list (.list .str) .nil).render = (Val.list (.list .bool) .nil).render ∧
    valEq (.list (.list .str) .nil) (.list (.list .bool) .nil) = false := by
  refine ⟨⟨?_, ?_⟩, ⟨?_, ?_⟩, ?_, ?_, Sep.list ?_, by decide,
    by simp [valEq, Val.typeOf, tyEq]⟩
  all_goals first
    | (intro i v w h; simp [ValList.toList] at h; done)
    | simp [Val.WF, Val.All, ValList.All, Val.LocalWF, Val.LocalTyped, Val.TextOK,
        Val.LocalTextOK, Ty.wf, ValList.toList]

/-- an object with the fields `a` and `b` … -/
def ob2 : Val := .obj (.obj (.cons "a" .bool (.cons "b" .bool .nil)))
  (.cons (.bool true) (.cons (.bool false) .nil))
/-- … and an object with the single field `a: true, b` -/
def ob1 : Val := .obj (.obj (.cons "a: true, b" .bool .nil)) (.cons (.bool false) .nil)

theorem ob2_typed : ob2.Typed := by
  refine ⟨?_, ?_⟩
  · simp [ob2, Val.WF, Val.All, ValList.All, Val.LocalWF, Ty.wf, wfFields, FieldList.find?,
      FieldList.length, ValList.length]
  · simp only [ob2, Val.All, ValList.All, localTyped_obj_cons, localTyped_obj_nil]
    simp [Val.LocalTyped, Val.typeOf, tyEq]
theorem ob1_typed : ob1.Typed := by
  refine ⟨?_, ?_⟩
  · simp [ob1, Val.WF, Val.All, ValList.All, Val.LocalWF, Ty.wf, wfFields, FieldList.find?,
      FieldList.length, ValList.length]
  · simp only [ob1, Val.All, ValList.All, localTyped_obj_cons, localTyped_obj_nil]
    simp [Val.LocalTyped, Val.typeOf, tyEq]
theorem sep_ob2_ob1 : Sep ob2 ob1 := by
  refine Sep.obj ?_
  intro n v w h1 h2
  have h1 := objGet?_some_mem _ _ _ _ h1
  have h2 := objGet?_some_mem _ _ _ _ h2
  simp [objPairs, FieldList.names, ValList.toList] at h1 h2
  rcases h1 with ⟨rfl, rfl⟩ | ⟨rfl, rfl⟩ <;> exact absurd h2.1 (by decide)

theorem ob2_ne_ob1 : valEq ob2 ob1 = false := by
  simp [ob2, ob1, valEq_obj, tyEq, FieldList.length]

/-- **equal types** are needed, even among objects: field names are arbitrary strings, so
`{a: true, b: false}` has two readings -/
theorem needs_equal_types_objects :
    ob2.Typed ∧ ob1.Typed ∧ ob2.TextOK ∧ ob1.TextOK ∧ Sep ob2 ob1 ∧
    ob2.render = ob1.render ∧ ob2.render = "{a: true, b: false}" ∧ valEq ob2 ob1 = false := by
  refine ⟨ob2_typed, ob1_typed, ?_, ?_, sep_ob2_ob1, by decide, by decide, ob2_ne_ob1⟩
  · simp [ob2, Val.TextOK, Val.All, ValList.All, Val.LocalTextOK]
  · simp [ob1, Val.TextOK, Val.All, ValList.All, Val.LocalTextOK]

/-- **conformance to the declared component types** (`Typed`, not only `WF`) is needed: two lists
of the same declared type `list[bool]`, holding the two objects above -/
theorem needs_typed :
    (Val.list (.list .bool) (.cons ob2 .nil)).WF ∧ (Val.list (.list .bool) (.cons ob1 .nil)).WF ∧
    (Val.list (.list .bool) (.cons ob2 .nil)).TextOK ∧
    (Val.list (.list .bool) (.cons ob1 .nil)).TextOK ∧
    (Val.list (.list .bool) (.cons ob2 .nil)).typeOf =
      (Val.list (.list .bool) (.cons ob1 .nil)).typeOf ∧
    Sep (.list (.list .bool) (.cons ob2 .nil)) (.list (.list .bool) (.cons ob1 .nil)) ∧
    (Val.list (.list .bool) (.cons ob2 .nil)).render =
      (Val.list (.list .bool) (.cons ob1 .nil)).render ∧
    valEq (.list (.list .bool) (.cons ob2 .nil)) (.list (.list .bool) (.cons ob1 .nil)) = false := by
  refine ⟨?_, ?_, ?_, ?_, rfl, Sep.list ?_, by decide, ?_⟩
  rotate_right
  · rw [valEq_list]
    simp [valEqList, ob2_ne_ob1]
  · have := ob2_typed.1
    simp only [Val.WF, Val.All, ValList.All, Val.LocalWF, Ty.wf, and_true, true_and] at this ⊢
    exact ⟨⟨_, rfl⟩, this⟩
  · have := ob1_typed.1
    simp only [Val.WF, Val.All, ValList.All, Val.LocalWF, Ty.wf, and_true, true_and] at this ⊢
    exact ⟨⟨_, rfl⟩, this⟩
  · simp [ob2, Val.TextOK, Val.All, ValList.All, Val.LocalTextOK]
  · simp [ob1, Val.TextOK, Val.All, ValList.All, Val.LocalTextOK]
  · intro i v w h1 h2
    have h1 := List.mem_of_getElem? h1
    have h2 := List.mem_of_getElem? h2
    simp only [ValList.toList, List.mem_cons, List.not_mem_nil, or_false] at h1 h2
    rw [h1, h2]; exact sep_ob2_ob1

/-- a map with the two string keys `a`, `b` … -/
def mk2 : Val := m1
/-- … and a map whose single key text was not produced by `Key()` -/
def mk1 : Val := .map (.map .str .bool) (.cons .str "\"a\": true, \"b\"" (.bool false) .nil)

/-- **genuine key texts** are needed (the model's entry lists store arbitrary strings; the
evaluator only ever stores `Key()` texts) -/
theorem needs_genuine_keys :
    mk2.Typed ∧ mk1.Typed ∧ mk2.TextOK ∧ tyEq mk2.typeOf mk1.typeOf = true ∧ Sep mk2 mk1 ∧
    mk2.render = mk1.render ∧ valEq mk2 mk1 = false := by
  refine ⟨m1_typed, ⟨?_, ?_⟩, m1_textOK, by decide, Sep.map ?_, by decide,
    by simp [mk2, m1, mk1, valEq_map, EntryList.length]⟩
  · simp [mk1, Val.WF, Val.All, EntryList.All, Val.LocalWF, EntryList.keys, EntryList.toList,
      Ty.wf, Ty.keyable, Ty.isPrimitive, Ty.kind, Kind.isPrimitive]
  · simp [mk1, Val.All, EntryList.All, Val.LocalTyped, EntryList.toList, Val.typeOf, tyEq]
  · intro t k v w h1 h2
    have h1 := EntryList.find?_some_mem _ _ _ _ h1
    have h2 := EntryList.find?_some_mem _ _ _ _ h2
    simp [EntryList.toList] at h1 h2
    rcases h1 with ⟨_, rfl, _⟩ | ⟨_, rfl, _⟩ <;> exact absurd h2.2.1 (by decide)

/-- **no function values**: a function value renders like itself and is not `==` to itself -/
theorem needs_no_functions (ty : Ty) (r : FunRef) (l : Bool) :
    Sep (.fn ty r l) (.fn ty r l) ∧ (Val.fn ty r l).render = (Val.fn ty r l).render ∧
    valEq (.fn ty r l) (.fn ty r l) = false :=
  ⟨Sep.fn _ _ _ _ _ _, rfl, fn_not_self_equal ty r l⟩

/-- **zone abbreviations without `,` `]` `}` `)`**: one instant whose zone "abbreviation" contains
`, ` and the text of a second instant, against a list of two instants.  (`time.FixedZone` accepts
any name.)  Remark: the first instants of the two lists are equal and displayed under different
zone names, so the display clause of `Sep` for instants fails here as well; the proof of
`same_text_imp_equal` does not use that clause.  Whether the zone condition is redundant in the
presence of that clause is not settled. -/
theorem needs_plain_zone :
    (Val.list (.list .time)
      (.cons (.time ⟨5, 0, 0, "UTC, 1970-01-01 00:00:07 +0000 UTC"⟩) .nil)).render =
    (Val.list (.list .time)
      (.cons (.time ⟨5, 0, 0, "UTC"⟩) (.cons (.time ⟨7, 0, 0, "UTC"⟩) .nil))).render ∧
    valEq (.list (.list .time)
      (.cons (.time ⟨5, 0, 0, "UTC, 1970-01-01 00:00:07 +0000 UTC"⟩) .nil))
      (.list (.list .time)
      (.cons (.time ⟨5, 0, 0, "UTC"⟩) (.cons (.time ⟨7, 0, 0, "UTC"⟩) .nil))) = false := by
  refine ⟨by decide, by simp [valEq_list, ValList.length]⟩

/-- **zone offsets in whole minutes**: `Time.String()` prints the offset as `-0700`, without
seconds; an instant displayed in a zone one second east of UTC and the instant one second later
displayed in UTC print alike.  This is the behaviour of Go's `time` package, not only of the
model. -/
theorem needs_whole_minute_offsets :
    (⟨0, 0, 1, "Z"⟩ : TimeV).render = (⟨1, 0, 0, "Z"⟩ : TimeV).render ∧
    Sep (.time ⟨0, 0, 1, "Z"⟩) (.time ⟨1, 0, 0, "Z"⟩) ∧
    valEq (.time ⟨0, 0, 1, "Z"⟩) (.time ⟨1, 0, 0, "Z"⟩) = false :=
  ⟨by decide, Sep.time (fun h => absurd h (by decide)),
    by simp [valEq, Val.typeOf, tyEq, TimeV.equal]⟩

/-- **nanoseconds below `10^9`** (an invariant of Go's `time.Time`; the model's `TimeV` does not
enforce it) -/
theorem needs_nsec_in_range :
    (⟨0, 1000000000, 0, "UTC"⟩ : TimeV).render = (⟨0, 100000000, 0, "UTC"⟩ : TimeV).render ∧
    valEq (.time ⟨0, 1000000000, 0, "UTC"⟩) (.time ⟨0, 100000000, 0, "UTC"⟩) = false := by
  have d1 : Nat.toDigits 10 1000000000 = ['1', '0', '0', '0', '0', '0', '0', '0', '0', '0'] := by
    simp [Nat.toDigits_of_base_le, Nat.toDigits_of_lt_base]
  have d2 : Nat.toDigits 10 100000000 = ['1', '0', '0', '0', '0', '0', '0', '0', '0'] := by
    simp [Nat.toDigits_of_base_le, Nat.toDigits_of_lt_base]
  have f1 : fracStr 1000000000 = fracStr 100000000 := by
    apply String.toList_inj.1
    rw [fracStr_toList, fracStr_toList]
    simp [fracL, padL, d1, d2]
  exact ⟨by simp only [TimeV.render, f1], by simp [valEq, Val.typeOf, tyEq, TimeV.equal]⟩

/-- **dates from 0000-03-01 on** (a limit of the model, not of Go, and inside the model's
documented range of years 0..9999): `TimeV.render` prints 0000-02-28 as `0000-02-29`
(`civilFromDays` is one day off before 0000-02-29) -/
theorem needs_date_from_march_of_year_0 :
    (⟨-62162208000, 0, 0, "UTC"⟩ : TimeV).render = (⟨-62162121600, 0, 0, "UTC"⟩ : TimeV).render ∧
    (⟨-62162121600, 0, 0, "UTC"⟩ : TimeV).render = "0000-02-29 00:00:00 +0000 UTC" ∧
    valEq (.time ⟨-62162208000, 0, 0, "UTC"⟩) (.time ⟨-62162121600, 0, 0, "UTC"⟩) = false :=
  ⟨by decide, by decide, by simp [valEq, Val.typeOf, tyEq, TimeV.equal]⟩

/-- … and it prints every negative year as `0000`: the last day of year -1 and a day one year
earlier print alike -/
theorem needs_year_in_range :
    (⟨-62167305600, 0, 0, "UTC"⟩ : TimeV).render = (⟨-62198841600, 0, 0, "UTC"⟩ : TimeV).render ∧
    valEq (.time ⟨-62167305600, 0, 0, "UTC"⟩) (.time ⟨-62198841600, 0, 0, "UTC"⟩) = false :=
  ⟨by decide, by simp [valEq, Val.typeOf, tyEq, TimeV.equal]⟩

/-! ## axioms -/
#print axioms valEq_symm
#print axioms valEq_symm_of_numEQ_symm
#print axioms valEq_refl_iff
#print axioms valEq_refl
#print axioms fn_not_self_equal
#print axioms render_map_perm
#print axioms wf_map_keyTexts_nodup
#print axioms render_map_perm_wf
#print axioms valEq_map_perm
#print axioms render_obj_perm
#print axioms time_equal_render_differs
#print axioms nothing_equal_render_differs
#print axioms equal_imp_same_text_partial
#print axioms equal_imp_same_set_element
#print axioms sep_num_identical
#print axioms sep_num_apart
#print axioms prim_equal_iff_same_text
#print axioms prim_equal_iff_same_key
#print axioms prim_same_text_iff_same_key
#print axioms time_equal_imp_same_key
#print axioms equal_keys_select_same_entry
#print axioms numbers_render_apart
#print axioms numbers_keys_apart
#print axioms int_range_numbers_render_apart
#print axioms toInt64_injective
#print axioms small_ints_render_apart
#print axioms pinned_rendering_agrees_in_range

#print axioms same_text_imp_equal
#print axioms same_text_imp_equal_no_numbers
#print axioms text_determines_value_and_rest
#print axioms equal_iff_same_text
#print axioms equal_iff_same_type_and_text
#print axioms equal_iff_same_text_no_numbers
#print axioms set_member_iff_equal_element
#print axioms merged_iff_equal
#print axioms union_has_iff
#print axioms intersect_has_iff
#print axioms diff_has_iff
#print axioms same_key_iff_equal
#print axioms select_same_entry_iff_equal
#print axioms time_same_text_imp_equal
#print axioms needs_equal_types_empty_lists
#print axioms needs_equal_types_objects
#print axioms needs_typed
#print axioms needs_genuine_keys
#print axioms needs_no_functions
#print axioms needs_plain_zone
#print axioms needs_whole_minute_offsets
#print axioms needs_nsec_in_range
#print axioms needs_date_from_march_of_year_0
#print axioms needs_year_in_range

end Yae.C18
