/-
  C19. "Evaluating an expression in debug (power-assert) mode returns the same value or failure
  as normal evaluation, and the recorded intermediate values are exactly the values of the
  variable, call, member and subscript sub-expressions that were actually evaluated, in
  evaluation order, each attributed to the column of its own term. Rendering the report never
  fails, keeps the source as its first line and shows every recorded value."

  Model: `Yae.eval fuel dbg ρ e` (`Yae/Model/Eval.lean`; `dbg = true` is `closure.DebugCompile`:
  every ident / call / subscript / member closure is wrapped by `wrapForDebug`, which calls
  `Record.Rec(v, col)` after the wrapped closure returned), `Event.dbg v col` is that call of
  `Rec`; `Yae.Debug.recordOf` replays the `dbg` events through `Yae.Debug.rec` (`Record.Rec`) and
  `Yae.Debug.render` is `newRender(src, rec).render()`.  The log is kept most recent event first.
  Proofs: `Yae.Proofs.DebugEval` (+ `DebugEvalBuiltins`), `Yae.Proofs.TypingEval`.

  What is proved, and how it reads the property:
  * "same value or failure": `same_result`, `same_run` — for EVERY expression, environment and
    fuel; moreover the host calls and prints are the same, in the same order.
  * "exactly the values of the variable, call, member and subscript sub-expressions that were
    actually evaluated, in evaluation order, each attributed to the column of its own term":
    `recorded_node` is the equation of one evaluation step of a recorded node — first its own
    sub-evaluations and operation (`body`), and then, only when that succeeded, ONE entry with the
    node's value and the node's column; `record_on_success`, `no_record_on_failure` are its two
    readings.  Literals and container literals add no entry of their own (`literal_records_nothing`,
    `list_records_nothing` …), and an operand that is not evaluated contributes nothing because it
    does not occur in the equation of that step (`if_records_only_taken`, from C06).  Since the
    log is threaded through the sub-evaluations in evaluation order, the `dbg` events appear in the
    order in which the evaluations of recorded nodes COMPLETE.
  * from events to the record (`Record.Rec`): `rec_free`, `rec_first_free`, `rec_distinct_cols`,
    `recordOf_faithful_partial` — when the recorded columns are pairwise distinct (each recorded
    node evaluated at most once, distinct nodes at distinct columns) the record is exactly the
    sequence of events.  It is NOT so in general: **finding D27** — `Rec` moves an entry whose column
    is already taken to the next free column, so when a lazy host function forces the same thunk
    twice the second evaluation's entries are attributed to the wrong column (`d27_eval`,
    `d27_record`, kernel-checked).
  * "rendering never fails": `Yae.Debug.render` is a total function (no `Option`/`Except`, no
    fuel that can run out: the only fuel, in `recAux`, is shown sufficient by `rec_first_free`);
    there is nothing to state.
  * "keeps the source as its first line": `render_firstline` (string level) and
    `render_first_line` — the report split at its line breaks (`linesOf`: split at every `'\n'`;
    nothing is lost, `render_lines_join`) has the source as its first line (for a `src` without
    `'\n'`, which `newRender` asserts).
  * "shows every recorded value": `render_shows` — when the columns of the record are pairwise
    distinct (which `recordOf_distinct_cols` guarantees for the record of every run:
    `recordOf_shown`), every entry with a column `≥ 1` whose text has no line break stands, whole
    and on ONE line of the report (so no line break is introduced inside it; moreover
    `render_no_break`: no line below the source contains `'\n'` or `'\r'` at all), below the source
    line and the `|` line, starting at its (1-based, rune) column.  `render_shows_lines` is the
    same for every text: its pieces (as split by `splitLines` at `\r\n`, `\r`, `\n`) stand on
    consecutive lines, each starting at the column.  Without the distinctness hypothesis:
    `render_shows_last` — of the entries of one column the LAST recorded one is shown; and the
    others are exactly the ones `renderValues` skips: `render_hidden` — an entry with column `< 1`
    (`Pos.unknown`) or with a later entry of the same column has no influence on the report at all
    (`hidden_duplicate`, `hidden_unknown`: kernel-checked instances).  So the property's
    "shows every recorded value" holds for every entry of a real record with a known column; no
    counterexample exists (the odd `startCols[j] = startCol + 1` after a `|`, and `startCols[1] = 0`
    for the `|` line, are harmless: a later entry has a smaller column, and writes its text on a
    line only when it ends strictly left of that line's `start`, which is never right of any text
    already there; proofs: `Yae.Proofs.DebugRender`, `DebugRenderReport`, `DebugRenderHidden`).
    NOT proved: that nothing ELSE is on the value lines (e.g. that the cells between the values
    are blanks or `|`), and that the `|` above a value is at the value's column on every line
    between the source and the value.
-/
import Yae.Proofs.DebugEval
import Yae.Proofs.DebugRenderHidden
import Yae.Props.C06
namespace Yae.C19
open Yae Yae.DebugEval Yae.Debug Yae.DebugRender

/-! ## same value or failure -/

/-- Debug mode only ADDS debug entries: from corresponding logs, the debug run and the plain run
return the same value or the same failure, and the plain log is the debug log without its `dbg`
entries (same host-function calls, same prints, same order). -/
theorem same_result (fuel : Nat) (ρ : REnv) (e : Expr) (log : List Event) :
    (eval fuel true ρ e log).1 = (eval fuel false ρ e (stripDbg log)).1 ∧
    stripDbg (eval fuel true ρ e log).2 = (eval fuel false ρ e (stripDbg log)).2 :=
  eval_sim fuel ρ e log

/-- the same for a whole run (`runEval`: from the empty log, events oldest first) -/
theorem same_run (ρ : REnv) (e : Expr) :
    (runEval true ρ e).1 = (runEval false ρ e).1 ∧
    stripDbg (runEval true ρ e).2 = (runEval false ρ e).2 := by
  have h := same_result (e.depth + 1) ρ e []
  rw [stripDbg_nil] at h
  unfold runEval
  refine ⟨h.1, ?_⟩
  show stripDbg (eval (e.depth + 1) true ρ e []).2.reverse = (eval (e.depth + 1) false ρ e []).2.reverse
  rw [← h.2]
  simp [stripDbg, List.filter_reverse]

/-! ## what is recorded, when, and under which column -/

/-- One evaluation step of a recorded node (`recCol e = some c`: variable, call, subscript,
member): its body — its own sub-evaluations, in order, then its own operation — and then, only if
the body succeeded, exactly one entry: the node's value under the node's own column. -/
theorem recorded_node (f : Nat) (ρ : REnv) (e : Expr) (c : Int) (hc : recCol e = some c)
    (log : List Event) :
    eval (f+1) true ρ e log =
      seq (body f true ρ e log) fun v l => (.ok v, Event.dbg v (c + 1) :: l) := by
  rw [eval_recorded f true ρ e c hc log]
  congr 1

example : recCol (.ident ⟨0, 1, 7, 1⟩ "x") = some 7 := rfl
example : recCol (.call Pos.unknown 3 (.ident Pos.unknown "f") .nil none "" (-1)) = some 3 := rfl
example : recCol (.subscript Pos.unknown 5 (.ident Pos.unknown "m") (.str Pos.unknown "k") none)
    = some 5 := rfl
example : recCol (.member Pos.unknown 9 (.ident Pos.unknown "o") "a" Pos.unknown none 0) = some 9 :=
  rfl

/-- a recorded node that evaluates to `v`: the LAST event is its own entry `(v, column)`, and
everything before it is the log of its body -/
theorem record_on_success {f : Nat} {ρ : REnv} {e : Expr} {c : Int} (hc : recCol e = some c)
    {log l : List Event} {v : Val} (h : eval (f+1) true ρ e log = (.ok v, l)) :
    ∃ l', body f true ρ e log = (.ok v, l') ∧ l = Event.dbg v (c + 1) :: l' := by
  rw [eval_recorded f true ρ e c hc log] at h
  exact seq_recDbg_ok h

/-- a recorded node whose evaluation fails records nothing for itself -/
theorem no_record_on_failure {f : Nat} {ρ : REnv} {e : Expr} {c : Int} (hc : recCol e = some c)
    {log l : List Event} {x : Fail} (h : eval (f+1) true ρ e log = (.error x, l)) :
    body f true ρ e log = (.error x, l) := by
  rw [eval_recorded f true ρ e c hc log] at h
  exact seq_recDbg_error h

/-- a variable: found — one entry, its value at its column; not found — failure, no entry -/
theorem record_ident (f : Nat) (ρ : REnv) (p : Pos) (name : String) (log : List Event) :
    eval (f+1) true ρ (.ident p name) log =
      match ρ.lookupVar name with
      | some v => (.ok v, Event.dbg v (p.col + 1) :: log)
      | none => (.error (.stuck "missing-var"), log) := by
  rw [eval_ident']
  cases ρ.lookupVar name <;> simp [recDbg_apply]

/-- the four literal kinds record nothing -/
theorem literal_records_nothing (f : Nat) (ρ : REnv) (e : Expr) (log : List Event)
    (h : match e with | .str .. | .num .. | .time .. | .bool .. => True | _ => False) :
    (eval (f+1) true ρ e log).2 = log :=
  eval_literal_log f true ρ e log h

example : (match Expr.str Pos.unknown "s" with
    | .str .. | .num .. | .time .. | .bool .. => True | _ => False) := trivial

/-- a list literal records nothing of its own: its log is the log of its elements -/
theorem list_records_nothing (f : Nat) (ρ : REnv) (p : Pos) (a : Expr) (as : ExprList)
    (ty : Option Ty) (log : List Event) :
    (eval (f+1) true ρ (.list p (.cons a as) ty) log).2 =
      (evalList f true ρ (.cons a as) log).2 := by
  rw [eval_list']
  rcases evalList f true ρ (.cons a as) log with ⟨r, l⟩
  cases r <;> cases ty <;> rfl

/-- … a map literal … -/
theorem map_records_nothing (f : Nat) (ρ : REnv) (p : Pos) (k v : Expr) (ps : PairList)
    (t : Ty) (log : List Event) :
    (eval (f+1) true ρ (.map p (.cons k v ps) (some t)) log).2 =
      (evalPairs f true ρ (.cons k v ps) .nil log).2 := by
  rw [eval_map']
  rcases evalPairs f true ρ (.cons k v ps) .nil log with ⟨r, l⟩
  cases r <;> rfl

/-- … an object literal -/
theorem obj_records_nothing (f : Nat) (ρ : REnv) (p : Pos) (n : String) (a : Expr)
    (fs : FieldEList) (ty : Option Ty) (log : List Event) :
    (eval (f+1) true ρ (.obj p (.cons n a fs) ty) log).2 =
      (evalFields f true ρ (.cons n a fs) log).2 := by
  rw [eval_obj']
  rcases evalFields f true ρ (.cons n a fs) log with ⟨r, l⟩
  cases r <;> cases ty <;> rfl

/-- operands are recorded left to right: first everything the first operand records, then the
rest (the log is threaded) -/
theorem operands_in_order (f : Nat) (ρ : REnv) (a : Expr) (as : ExprList) (log : List Event) :
    evalList f true ρ (.cons a as) log =
      seq (eval f true ρ a log) fun v l1 =>
      seq (evalList f true ρ as l1) fun vs l2 => (.ok (.cons v vs), l2) :=
  evalList_cons' f true ρ a as log

/-- the branch of `if` that is not taken is not evaluated, so nothing of it is recorded: with the
condition `true` the step is the taken branch `t` followed by the entry of the `if` itself; `e`
does not occur (`Yae.C06.if_true`; likewise `if_false`, `and_lazy`, `or_lazy` there) -/
theorem if_records_only_taken (f : Nat) (ρ : REnv) (p : Pos) (col : Int) (callee c t e : Expr)
    (cty : Option Ty) (resolved : String) (index : Int) (d : FunDecl) (idx : Nat)
    (b : BuiltinDecl) (log l1 : List Event)
    (hres : resolved ≠ "") (hd : resolveStatic ρ.funs resolved index = some d)
    (href : d.ref = .builtin idx) (hlazy : d.isLazy = true)
    (hb : builtins[idx]? = some b) (hid : b.id = .IF_BOOL_ANY_ANY)
    (hc : eval f true ρ c log = (.ok (.bool true), l1)) :
    eval (f+1) true ρ (.call p col callee (.cons c (.cons t (.cons e .nil))) cty resolved index) log =
      seq (eval f true ρ t l1) fun v l => (.ok v, Event.dbg v (col + 1) :: l) := by
  rw [Yae.C06.if_true f true ρ p col callee c t e cty resolved index d idx b log l1 hres hd href
    hlazy hb hid hc]
  congr 1

/-- non-vacuity: as for `Yae.C06.if_true` (the built-in table resolves `if`/3 to the lazy
built-in) with a condition evaluating to `true` -/
example : eval 1 true ⟨[], builtinFuns, {}⟩ (.bool Pos.unknown true) [] = (.ok (.bool true), []) := by
  rw [eval]; rfl

/-! ## from the events to the record (`Record.Rec`) -/

/-- the entry lands at its own column when that column is free -/
theorem rec_free (r : Record) (v : Val) (col : Int) (h : r.hasCol col = false) :
    Debug.rec r v col = r ++ [⟨v.render, col⟩] :=
  recText_free r v.render col h

example : Record.hasCol [⟨"1", 3⟩] 5 = false := by decide

/-- in general: the entry is appended (earlier entries are untouched) at the FIRST free column
at or to the right of its own — such a column is always found (the fuel of `recAux` suffices) -/
theorem rec_first_free (r : Record) (v : Val) (col : Int) :
    ∃ k : Nat, Debug.rec r v col = r ++ [⟨v.render, col + k⟩] ∧
      (∀ i : Nat, i < k → r.hasCol (col + i) = true) ∧ r.hasCol (col + k) = false :=
  recText_spec r v.render col

/-- the own column is taken: the entry is attributed to a column further right (D27) -/
theorem rec_shifted (r : Record) (v : Val) (col : Int) (h : r.hasCol col = true) :
    ∃ k : Nat, 0 < k ∧ Debug.rec r v col = r ++ [⟨v.render, col + k⟩] :=
  recText_taken r v.render col h

example : Record.hasCol [⟨"1", 3⟩] 3 = true := by decide

/-- recorded columns stay pairwise distinct -/
theorem rec_distinct_cols (r : Record) (v : Val) (col : Int) (h : (r.map (·.col)).Nodup) :
    ((Debug.rec r v col).map (·.col)).Nodup :=
  recText_nodup r v.render col h

example : (([⟨"1", 3⟩, ⟨"2", 4⟩] : Record).map (·.col)).Nodup := by decide

/-- the record of a run never has two entries under one column, and has one entry per event -/
theorem recordOf_distinct_cols (evs : List Event) :
    ((recordOf evs).map (·.col)).Nodup ∧ (recordOf evs).length = (entriesOf evs).length := by
  rw [recordOf_eq_foldl]
  refine ⟨foldl_recStep_nodup evs [] (by simp [cols]), ?_⟩
  rw [foldl_recStep_length]; simp

/-- **faithful record, partial**: when the columns of the debug events are pairwise distinct, the
record is exactly the sequence of `(rendered value, column)` of the events, in order.

The full statement — `recordOf evs = entriesOf evs` for the events of every run — is FALSE
(`d27_record` below); what is missing is that no column is recorded twice in one run, which
holds when every recorded node is evaluated at most once and distinct recorded nodes have
distinct columns, and fails when a lazy host function forces a thunk twice. -/
theorem recordOf_faithful_partial (evs : List Event)
    (h : ((entriesOf evs).map (·.col)).Nodup) : recordOf evs = entriesOf evs := by
  rw [recordOf_eq_foldl, foldl_recStep_faithful evs [] (by simpa [cols] using h)]
  rfl

example : ((entriesOf [.dbg (.bool true) 2, .call "f" [], .dbg (.bool false) 5]).map (·.col)).Nodup := by
  decide

/-! ### finding D27, kernel-checked -/

/-- `lz2(x)` with `x` at column 4 (0-based; recorded under 5), the call at column 3, `lz2` a lazy
host function that forces its argument twice -/
def d27Env : REnv :=
  ⟨[("x", .bool true),
    ("lz2", .fn (.fn "lz2" (.cons .bool .nil) .bool) (.host "lz2" (.force [0, 0])) true)], [], {}⟩
def d27Expr : Expr :=
  .call ⟨0, 2, 1, 1⟩ 3 (.ident ⟨0, 2, 1, 1⟩ "lz2") (.cons (.ident ⟨3, 4, 4, 1⟩ "x") .nil) none "" (-1)

/-- the debug run: `x` is evaluated twice and both evaluations are reported under column 5 … -/
theorem d27_eval : eval 3 true d27Env d27Expr [] =
    (.ok (.bool true),
     [.dbg (.bool true) 4, .dbg (.bool true) 5, .dbg (.bool true) 5, .call "lz2" [],
      .dbg (.fn (.fn "lz2" (.cons .bool .nil) .bool) (.host "lz2" (.force [0, 0])) true) 2]) := by
  unfold d27Expr
  rw [eval_call_dynamic', eval_ident']
  have h1 : d27Env.lookupVar "lz2" =
    some (.fn (.fn "lz2" (.cons .bool .nil) .bool) (.host "lz2" (.force [0, 0])) true) := rfl
  have hx : d27Env.lookupVar "x" = some (.bool true) := rfl
  simp only [h1, recDbg_apply, seq_ok, if_true]
  rw [callFun_lazy_host', forceSeq_cons' _ _ _ _ _ _ _ _ rfl, eval_ident']
  simp only [hx, recDbg_apply, seq_ok, if_true]
  rw [forceSeq_cons' _ _ _ _ _ _ _ _ rfl, eval_ident']
  simp only [hx, recDbg_apply, seq_ok, if_true]
  rw [forceSeq]
  rfl

/-- … but the record attributes the second one to column 6, where no term is -/
theorem d27_record :
    recordOf [.dbg (.bool true) 5, .dbg (.bool true) 5] = [⟨"true", 5⟩, ⟨"true", 6⟩] ∧
    entriesOf [.dbg (.bool true) 5, .dbg (.bool true) 5] = [⟨"true", 5⟩, ⟨"true", 5⟩] := by
  decide

/-! ## the report -/

/-- the report starts with the source text, and whatever follows starts on a new line: the
source is the first line (for a `src` without line break, as `render` assumes) -/
theorem render_firstline (src : String) (r : Record) :
    ∃ rest, render src r = src ++ rest ∧ (rest = "" ∨ ∃ rest', rest = "\n" ++ rest') :=
  DebugEval.render_firstline src r

/-! ### the lines of the report

`linesOf s` (`Yae.DebugRender.linesOf`) is `s` split at every `'\n'`. -/

example : linesOf "ab\n\ncd" = [['a', 'b'], [], ['c', 'd']] := by decide

/-- splitting the report into its lines loses nothing: joined by `"\n"` they are the report -/
theorem render_lines_join (src : String) (r : Record) (hsrc : ∀ x ∈ src.toList, x ≠ '\n') :
    "\n".intercalate ((linesOf (render src r)).map String.ofList) = render src r :=
  render_eq_join src r hsrc

/-- the first line of the report is the source, character by character -/
theorem render_first_line (src : String) (r : Record) (hsrc : ∀ x ∈ src.toList, x ≠ '\n') :
    (linesOf (render src r))[0]? = some src.toList := by
  rw [linesOf_render src r hsrc]; rfl

/-- below the source line no line of the report contains a line break character (`'\n'`, `'\r'`):
`render` breaks a value only where the value's own text has a line break -/
theorem render_no_break (src : String) (r : Record) (hsrc : ∀ x ∈ src.toList, x ≠ '\n') :
    ∀ line ∈ (linesOf (render src r)).tail, ∀ x ∈ line, x ≠ '\n' ∧ x ≠ '\r' :=
  render_tail_noBreak src r hsrc

/-! ### every recorded value is shown -/

/-- **shows every recorded value** (columns pairwise distinct, text without line break): the
report has a line — below the source line and the `|` line — that carries the whole text of the
entry, starting at the entry's column (1-based, counted in characters).  In particular the text
is on ONE line: no line break is introduced inside it. -/
theorem render_shows (src : String) (r : Record) (hsrc : ∀ x ∈ src.toList, x ≠ '\n')
    (hd : (r.map (·.col)).Nodup) (e : Entry) (he : e ∈ r) (hc : 1 ≤ e.col)
    (hone : ∀ x ∈ e.text.toList, x ≠ '\n' ∧ x ≠ '\r') :
    ∃ i line, 2 ≤ i ∧ (linesOf (render src r))[i]? = some line ∧
      (line.drop (e.col.toNat - 1)).take e.text.length = e.text.toList :=
  single_of_lines hone (DebugRender.render_shows_lines src r hsrc hd e he hc)

/-- … for every text: its pieces — the text split at `\r\n`, `\r`, `\n` (`splitLines`) — stand on
consecutive lines of the report, each starting at the entry's column -/
theorem render_shows_lines (src : String) (r : Record) (hsrc : ∀ x ∈ src.toList, x ≠ '\n')
    (hd : (r.map (·.col)).Nodup) (e : Entry) (he : e ∈ r) (hc : 1 ≤ e.col) :
    ∃ i, 2 ≤ i ∧ ∀ k (hk : k < (splitLines e.text.toList []).length), ∃ line,
      (linesOf (render src r))[i + k]? = some line ∧
      (line.drop (e.col.toNat - 1)).take ((splitLines e.text.toList [])[k]).length =
        (splitLines e.text.toList [])[k] :=
  DebugRender.render_shows_lines src r hsrc hd e he hc

/-- … for every record: of the entries of one column `≥ 1`, the one recorded LAST is shown -/
theorem render_shows_last (src : String) (r1 : Record) (e : Entry) (r2 : Record)
    (hsrc : ∀ x ∈ src.toList, x ≠ '\n') (hc : 1 ≤ e.col) (hne : ∀ y ∈ r2, y.col ≠ e.col) :
    ∃ i, 2 ≤ i ∧ ∀ k (hk : k < (splitLines e.text.toList []).length), ∃ line,
      (linesOf (render src (r1 ++ e :: r2)))[i + k]? = some line ∧
      (line.drop (e.col.toNat - 1)).take ((splitLines e.text.toList [])[k]).length =
        (splitLines e.text.toList [])[k] :=
  DebugRender.render_shows_last src r1 e r2 hsrc hc hne

/-- … and the other entries — unknown column (`< 1`), or a later entry of the record has the same
column — are the ones `renderValues` skips: they have no influence on the report -/
theorem render_hidden (src : String) (r1 : Record) (e : Entry) (r2 : Record)
    (h : e.col < 1 ∨ ∃ y ∈ r2, y.col = e.col) :
    render src (r1 ++ e :: r2) = render src (r1 ++ r2) :=
  DebugRender.render_hidden src r1 e r2 h

/-- the record of a run (`recordOf`, columns pairwise distinct by `recordOf_distinct_cols`):
every entry with a known column and a text without line break is shown at its column -/
theorem recordOf_shown (src : String) (evs : List Event) (hsrc : ∀ x ∈ src.toList, x ≠ '\n')
    (e : Entry) (he : e ∈ recordOf evs) (hc : 1 ≤ e.col)
    (hone : ∀ x ∈ e.text.toList, x ≠ '\n' ∧ x ≠ '\r') :
    ∃ i line, 2 ≤ i ∧ (linesOf (render src (recordOf evs)))[i]? = some line ∧
      (line.drop (e.col.toNat - 1)).take e.text.length = e.text.toList :=
  render_shows src (recordOf evs) hsrc (recordOf_distinct_cols evs).1 e he hc hone

/-- … and with a text of several lines -/
theorem recordOf_shown_lines (src : String) (evs : List Event) (hsrc : ∀ x ∈ src.toList, x ≠ '\n')
    (e : Entry) (he : e ∈ recordOf evs) (hc : 1 ≤ e.col) :
    ∃ i, 2 ≤ i ∧ ∀ k (hk : k < (splitLines e.text.toList []).length), ∃ line,
      (linesOf (render src (recordOf evs)))[i + k]? = some line ∧
      (line.drop (e.col.toNat - 1)).take ((splitLines e.text.toList [])[k]).length =
        (splitLines e.text.toList [])[k] :=
  render_shows_lines src (recordOf evs) hsrc (recordOf_distinct_cols evs).1 e he hc

/-! non-vacuity: `a + b` with `a = 1` (column 1) and `b = 2` (column 5) -/

example : render "a + b" [⟨"1", 1⟩, ⟨"2", 5⟩] = "a + b\n|   |\n1   2" := by decide

example : linesOf (render "a + b" [⟨"1", 1⟩, ⟨"2", 5⟩]) =
    ["a + b".toList, "|   |".toList, "1   2".toList] := by decide

/-- the hypotheses of `render_shows` hold for both entries of that record … -/
example : (([⟨"1", 1⟩, ⟨"2", 5⟩] : Record).map (·.col)).Nodup ∧
    (∀ x ∈ "a + b".toList, x ≠ '\n') ∧
    (∀ e ∈ ([⟨"1", 1⟩, ⟨"2", 5⟩] : Record), 1 ≤ e.col ∧ ∀ x ∈ e.text.toList, x ≠ '\n' ∧ x ≠ '\r') := by
  decide

/-- … and its conclusion, on line 2, for the entry at column 5 -/
example : (linesOf (render "a + b" [⟨"1", 1⟩, ⟨"2", 5⟩]))[2]? = some "1   2".toList ∧
    (("1   2".toList).drop ((5 : Int).toNat - 1)).take "2".length = "2".toList := by decide

/-- a text with a line break always gets fresh lines, one per piece, each at the column; a value
may end directly in front of a `|` (`startCols[j] = startCol + 1`) … -/
example : render "ab.c + d" [⟨"100", 1⟩, ⟨"x\ny", 4⟩, ⟨"7", 8⟩] =
    "ab.c + d\n|  |   |\n100|   7\n   x\n   y" := by decide

/-- … but not directly in front of a value: it goes to the next line with room -/
example : render "ab.c + d" [⟨"100", 1⟩, ⟨"55", 4⟩, ⟨"7", 8⟩] =
    "ab.c + d\n|  |   |\n|  55  7\n100" := by decide

example : splitLines "x\r\ny\rz\n".toList [] = [['x'], ['y'], ['z'], []] := by decide

/-- two entries under one column (which `Rec` never produces): only the later one is shown, the
report is that of the record without the earlier one (`render_hidden`) -/
theorem hidden_duplicate :
    render "abc" [⟨"1", 3⟩, ⟨"2", 3⟩] = "abc\n  |\n  2" ∧
    render "abc" [⟨"2", 3⟩] = "abc\n  |\n  2" := by decide

/-- an entry with an unknown column is not shown -/
theorem hidden_unknown : render "abc" [⟨"1", 0⟩] = "abc\n" ∧ render "abc" [] = "abc\n" := by decide

end Yae.C19

#print axioms Yae.C19.same_result
#print axioms Yae.C19.same_run
#print axioms Yae.C19.recorded_node
#print axioms Yae.C19.record_on_success
#print axioms Yae.C19.no_record_on_failure
#print axioms Yae.C19.record_ident
#print axioms Yae.C19.literal_records_nothing
#print axioms Yae.C19.list_records_nothing
#print axioms Yae.C19.map_records_nothing
#print axioms Yae.C19.obj_records_nothing
#print axioms Yae.C19.operands_in_order
#print axioms Yae.C19.if_records_only_taken
#print axioms Yae.C19.rec_free
#print axioms Yae.C19.rec_first_free
#print axioms Yae.C19.rec_shifted
#print axioms Yae.C19.rec_distinct_cols
#print axioms Yae.C19.recordOf_distinct_cols
#print axioms Yae.C19.recordOf_faithful_partial
#print axioms Yae.C19.d27_eval
#print axioms Yae.C19.d27_record
#print axioms Yae.C19.render_firstline
#print axioms Yae.C19.render_lines_join
#print axioms Yae.C19.render_first_line
#print axioms Yae.C19.render_no_break
#print axioms Yae.C19.render_shows
#print axioms Yae.C19.render_shows_lines
#print axioms Yae.C19.render_shows_last
#print axioms Yae.C19.render_hidden
#print axioms Yae.C19.recordOf_shown
#print axioms Yae.C19.recordOf_shown_lines
#print axioms Yae.C19.hidden_duplicate
#print axioms Yae.C19.hidden_unknown
