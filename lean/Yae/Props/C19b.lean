/-
  C19 at the level of the engine object (`Yae/Model/Engine.lean`): "Evaluating an expression in
  debug (power-assert) mode returns the same value or failure as normal evaluation …".

  `yae.Debug` is `NewExpr().UseCompiler(closure.DebugCompile)`; the same Callable compiled with
  the debug compiler and with the closure compiler (same environment, same tree, same function
  table) is invoked on the same run-time environment:
    * `engine_debug_same_result`: same value / same failure / same environment error, and the
      observable events (host calls, print lines) are the same, in the same order — the debug
      run only ADDS debug entries;
    * `engine_debug_reject_records_nothing`: when the environment check refuses, the debug
      Callable records nothing either.
-/
import Yae.Props.C19
import Yae.Props.C07b
namespace Yae.C19
open Yae Yae.Facade Yae.DebugEval

/-- the same Callable under another compiler -/
def withBackend (c : Callable) (b : Backend) : Callable := { c with backend := b }

theorem engine_debug_same_result (e : Engine) (c : Callable) (venv : List (String × Val))
    (ext : Externs) :
    (e.invoke (withBackend c .closureDebug) venv ext).1 = (e.invoke (withBackend c .closure) venv ext).1 ∧
    stripDbg (e.invoke (withBackend c .closureDebug) venv ext).2 =
      (e.invoke (withBackend c .closure) venv ext).2 := by
  unfold Engine.invoke withBackend
  simp only [Backend.dbg, Engine.tableFor, Backend.late]
  cases hc : envCheck c.tenv venv with
  | error err => simp [stripDbg]
  | ok u =>
    have h := same_run ⟨venv, c.funs, ext⟩ c.tree
    simp only [Bool.false_eq_true, if_false]
    rcases hd : runEval true ⟨venv, c.funs, ext⟩ c.tree with ⟨rd, ed⟩
    rcases hn : runEval false ⟨venv, c.funs, ext⟩ c.tree with ⟨rn, en⟩
    rw [hd, hn] at h
    simp only at h
    obtain ⟨h1, h2⟩ := h
    subst h1 h2
    cases rd <;> simp

theorem engine_debug_reject_records_nothing (e : Engine) (c : Callable)
    (venv : List (String × Val)) (ext : Externs) {err : EnvErr}
    (h : envCheck c.tenv venv = .error err) :
    e.invoke (withBackend c .closureDebug) venv ext = (.error (.env err), []) :=
  C07.reject_evaluates_nothing e (withBackend c .closureDebug) venv ext h

end Yae.C19

#print axioms Yae.C19.engine_debug_same_result
#print axioms Yae.C19.engine_debug_reject_records_nothing
