/-
  C20. "The WHERE text produced from a criteria tree, when read with standard SQL precedence
  (comparison, then NOT, then AND, then OR), combines the same conditions with the same
  connectives in the same nesting as the tree (up to the associativity of AND and of OR);
  run-time values are substituted for names bound in the environment and column names otherwise.
  Every string operand appears as one quoted literal from which no character of the operand can
  escape, and numbers, booleans and times appear in their exact SQL form."

  Model: `Yae/Model/Sql.lean` (`toSql` = `ext.CompileToSql`, `emit` = the closure built by
  `sql.Compile`, `fmtVal`), `Yae/Model/SqlRead.lean` (the reference reader `readSql` with standard
  SQL precedence; `c20Check` is the property in executable form, run by the differential stream
  `sql` on every generated criteria tree).  Proofs: `Yae.Proofs.SqlLemmas`, `Yae.Proofs.NumLemmas`.

  What is PROVED here, and what is not:
  * scalars in their exact form: `fmtVal_bool`, `fmtVal_num`, `fmtVal_time`, `fmtVal_str`,
    `fmtVal_unsupported` (kernel-checked unfoldings; the findings SQL1 — NaN/±Inf written
    verbatim — and SQL2 — sub-second part of a time dropped — are visible in them: `fmtVal_num`
    is `Num.renderNum x` for EVERY `x`, `fmtVal_time` only mentions `t.sec`);
  * substitution: `bound_name_substituted`, `unbound_name_is_column`;
  * strings: `quote_roundtrip` (`strconv.Unquote ∘ strconv.Quote = id`), `quote_injective`, and
    `string_literal_reads_back_partial`: scanning `quote s ++ rest` with the rules of Go-quote
    syntax ends the literal exactly at the quote that `quote` appended, with content `s`, and
    leaves `rest` untouched — for ANY `rest`: no character of the operand can end the literal early
    or swallow what follows.  PARTIAL: the scanner is `Num.unquoteBody` (the model of
    `strconv.Unquote`, on characters), not the reader's own `strBody` (the same grammar on UTF-8
    bytes followed by `String.fromUTF8?`); that the two agree is exercised by `c20Check` in the
    differential stream, not proved.
  * nesting: `paren_rule_partial` — a call compiled in a context of precedence `outer` is
    wrapped in parentheses iff it is a logical connective of LOWER precedence (`paren_table`: OR
    under AND; AND and OR under NOT; nothing under OR or at top level; conditions never), and the
    reader turns a parenthesised expression back into the expression (`reader_parens`).
    NOT proved: the structural theorem
        `toSql c tenv venv = .ok text → readSql text = some t → treeOf venv c = some w →
           flatten t = flatten w`
    (`c20Check … = some true` for all inputs), not even on the connective skeleton: it needs the
    inversion of the fuel-driven precedence-climbing parser over `emit` up to `flatten` (and the
    type checker `check` in `toSql`).  Kernel-checked instances of the reader on the token
    sequences of each row of `paren_table` are given as `example`s.
-/
import Yae.Proofs.SqlLemmas
namespace Yae.C20
open Yae Yae.Sql Yae.SqlLemmas

/-! ## scalars in their exact SQL form -/

theorem fmtVal_bool (b : Bool) : fmtVal (.bool b) = .ok (if b then "1" else "0") := rfl
theorem fmtVal_num (x : Float) : fmtVal (.num x) = .ok (Num.renderNum x) := rfl
theorem fmtVal_time (t : TimeV) :
    fmtVal (.time t) = .ok ("from_unixtime(" ++ toString t.sec ++ ")") := rfl
theorem fmtVal_str (s : String) : fmtVal (.str s) = .ok (Num.quote s) := rfl

/-- lists, maps, objects, optionals and functions have no SQL form; a Go nil is a run-time error -/
theorem fmtVal_unsupported :
    (∀ ty vs, fmtVal (.list ty vs) = .error .unsupportedVal) ∧
    (∀ ty es, fmtVal (.map ty es) = .error .unsupportedVal) ∧
    (∀ ty vs, fmtVal (.obj ty vs) = .error .unsupportedVal) ∧
    (∀ el v, fmtVal (.just el v) = .error .unsupportedVal) ∧
    (∀ el, fmtVal (.nothing el) = .error .unsupportedVal) ∧
    (∀ ty r l, fmtVal (.fn ty r l) = .error .unsupportedVal) ∧
    fmtVal .nil = .error .nilVal :=
  ⟨fun _ _ => rfl, fun _ _ => rfl, fun _ _ => rfl, fun _ _ => rfl, fun _ => rfl,
   fun _ _ _ => rfl, rfl⟩

/-! ## names: run-time value if bound, column otherwise -/

theorem bound_name_substituted (venv : List (String × Val)) (outer : Nat) (p : Pos)
    (name : String) (q : String × Val) (h : venv.find? (fun p => p.1 == name) = some q) :
    emit venv outer (.ident p name) = fmtVal q.2 := by
  rw [emit]; simp only [h]

example : List.find? (fun p => p.1 == "n") [("n", Val.str "a")] = some ("n", .str "a") := by rfl

theorem unbound_name_is_column (venv : List (String × Val)) (outer : Nat) (p : Pos)
    (name : String) (h : venv.find? (fun p => p.1 == name) = none) :
    emit venv outer (.ident p name) = .ok ("`" ++ name ++ "`") := by
  rw [emit]; simp only [h]; rfl

example : List.find? (fun p => p.1 == "n") ([] : List (String × Val)) = none := rfl

/-! ## string operands -/

/-- `strconv.Unquote(strconv.Quote(s)) = s` -/
theorem quote_roundtrip (s : String) : Num.unquote (Num.quote s) = some s := Num.unquote_quote s

/-- different operands give different literals -/
theorem quote_injective {a b : String} (h : Num.quote a = Num.quote b) : a = b :=
  Num.quote_injective h

/-- **no character of the operand can escape** (partial: for the `strconv.Unquote` scanner, see
the header).  The literal is `"` + body + `"`; reading the body followed by the closing quote and
then ANY further text `rest` decodes to exactly `s` and stops exactly before `rest`. -/
theorem string_literal_reads_back_partial (s : String) (rest : List Char) :
    ∃ body, (Num.quote s).toList = '"' :: (body ++ ['"']) ∧
      Num.unquoteBody '"' false (body.length + 1 + rest.length + 1) [] (body ++ '"' :: rest)
        = some (s.toList, rest) := by
  refine ⟨s.toList.flatMap Num.quoteChar, quote_toList s, ?_⟩
  have := quoted_scan s.toList rest ((s.toList.flatMap Num.quoteChar).length + 1 + rest.length + 1)
    [] (by have := Num.length_le_flatMap_quoteChar s.toList; omega)
  simpa using this

/-- the classic injection attempt: the operand `x" OR "1"="1` stays one literal -/
example : Num.quote "x\" OR \"1\"=\"1" = "\"x\\\" OR \\\"1\\\"=\\\"1\"" := by decide

/-! ## nesting -/

/-- **parenthesisation rule** (partial structural result, see the header): a call compiled in a
context of precedence `outer` — its arguments are compiled in the context of its own precedence —
is wrapped in parentheses iff it is a logical connective and `outer` is higher than its own
precedence. -/
theorem paren_rule_partial (venv : List (String × Val)) (outer : Nat) (p : Pos) (col : Int)
    (callee : Expr) (args : ExprList) (cty : Option Ty) (resolved : String) (index : Int)
    (d : FunDecl) (fm : Fmt) (xs : List String) (s : String)
    (hd : resolveStatic sqlFuns resolved index = some d) (hf : lookupFmt d = some fm)
    (hx : emitList venv (fm.prec?.getD 0) args = .ok xs) (hs : fm.apply xs = .ok s) :
    emit venv outer (.call p col callee args cty resolved index) =
      .ok (if fm.prec?.isSome && outer > fm.prec?.getD 0 then "(" ++ s ++ ")" else s) :=
  emit_call venv outer p col callee args cty resolved index d fm xs s hd hf hx hs

/-- non-vacuity: formatters are found for the registered functions and apply to their arity -/
example : lookupFmt { ty := .bool, ref := .host "LOGIC_OR_BOOL_BOOL" (.retArg 0), isLazy := false }
    = some .logicOr ∧ Fmt.logicOr.apply ["a", "b"] = .ok "a OR b" := ⟨by rfl, rfl⟩

/-- which connective is wrapped where: OR under AND; AND and OR under NOT; nothing under OR or at
the top level; a condition never.  With standard SQL precedence (comparison > NOT > AND > OR)
these are exactly the places where omitting the parentheses would change the reading. -/
theorem paren_table :
    (Fmt.logicOr.prec?.isSome && 4 > Fmt.logicOr.prec?.getD 0) = true ∧
    (Fmt.logicAnd.prec?.isSome && 4 > Fmt.logicAnd.prec?.getD 0) = false ∧
    (Fmt.logicNot.prec?.isSome && 4 > Fmt.logicNot.prec?.getD 0) = false ∧
    (Fmt.logicAnd.prec?.isSome && 3 > Fmt.logicAnd.prec?.getD 0) = false ∧
    (Fmt.logicOr.prec?.isSome && 3 > Fmt.logicOr.prec?.getD 0) = false ∧
    (Fmt.logicNot.prec?.isSome && 3 > Fmt.logicNot.prec?.getD 0) = false ∧
    (Fmt.logicAnd.prec?.isSome && 10 > Fmt.logicAnd.prec?.getD 0) = true ∧
    (Fmt.logicOr.prec?.isSome && 10 > Fmt.logicOr.prec?.getD 0) = true ∧
    (Fmt.logicNot.prec?.isSome && 10 > Fmt.logicNot.prec?.getD 0) = false ∧
    (∀ op outer, ((Fmt.binary op).prec?.isSome && outer > (Fmt.binary op).prec?.getD 0) = false) ∧
    (∀ op outer, ((Fmt.postfix op).prec?.isSome && outer > (Fmt.postfix op).prec?.getD 0) = false) ∧
    (∀ outer, (Fmt.between.prec?.isSome && outer > Fmt.between.prec?.getD 0) = false) :=
  SqlLemmas.paren_table

/-- the reader takes a parenthesised expression for the expression -/
theorem reader_parens (fuel : Nat) (ts rest : List Tok) (x : SqlTree)
    (h : parseItems fuel ts = some (.cons x .nil, rest)) :
    parsePrimary (fuel+1) (.sym "(" :: ts) = some (x, rest) := by
  rw [parsePrimary]
  simp only [h]
  rfl

example : parseItems 10 [.bq "a", .sym ")"] = some (.cons (.col "a") .nil, []) := by rfl

/-! the reader on the token sequences of the rows of `paren_table` (kernel-checked) -/

/-- `a AND (b OR c)`: the parentheses keep the OR together -/
example : parseOr 100 [.bq "a", .word "AND", .sym "(", .bq "b", .word "OR", .bq "c", .sym ")"] =
    some (.and (.cons (.col "a") (.cons (.or (.cons (.col "b") (.cons (.col "c") .nil))) .nil)), []) := by
  rfl
/-- `a AND b OR c` (AND under OR, no parentheses): AND binds tighter -/
example : parseOr 100 [.bq "a", .word "AND", .bq "b", .word "OR", .bq "c"] =
    some (.or (.cons (.and (.cons (.col "a") (.cons (.col "b") .nil))) (.cons (.col "c") .nil)), []) := by
  rfl
/-- `NOT (a AND b)` against `NOT a AND b` -/
example : parseOr 100 [.word "NOT", .sym "(", .bq "a", .word "AND", .bq "b", .sym ")"] =
    some (.not (.and (.cons (.col "a") (.cons (.col "b") .nil))), []) ∧
    parseOr 100 [.word "NOT", .bq "a", .word "AND", .bq "b"] =
    some (.and (.cons (.not (.col "a")) (.cons (.col "b") .nil)), []) := ⟨by rfl, by rfl⟩
/-- `NOT a = "x"`: the comparison binds tighter than NOT, a condition needs no parentheses -/
example : parseOr 100 [.word "NOT", .bq "a", .sym "=", .str "x"] =
    some (.not (.cond "=" (.cons (.col "a") (.cons (.str "x") .nil))), []) := by rfl
/-- `a AND b AND c` reads left-nested; the tree may be right-nested: equal up to `flatten` -/
example : (parseOr 100 [.bq "a", .word "AND", .bq "b", .word "AND", .bq "c"]).map (flatten ·.1) =
    some (flatten (.and (.cons (.col "a") (.cons (.and (.cons (.col "b") (.cons (.col "c") .nil))) .nil)))) := by
  rfl

end Yae.C20

#print axioms Yae.C20.fmtVal_bool
#print axioms Yae.C20.fmtVal_num
#print axioms Yae.C20.fmtVal_time
#print axioms Yae.C20.fmtVal_str
#print axioms Yae.C20.fmtVal_unsupported
#print axioms Yae.C20.bound_name_substituted
#print axioms Yae.C20.unbound_name_is_column
#print axioms Yae.C20.quote_roundtrip
#print axioms Yae.C20.quote_injective
#print axioms Yae.C20.string_literal_reads_back_partial
#print axioms Yae.C20.paren_rule_partial
#print axioms Yae.C20.paren_table
#print axioms Yae.C20.reader_parens
