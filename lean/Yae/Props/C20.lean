/-
  C20. "The WHERE text produced from a criteria tree, when read with standard SQL precedence
  (comparison, then NOT, then AND, then OR), combines the same conditions with the same
  connectives in the same nesting as the tree (up to the associativity of AND and of OR);
  run-time values are substituted for names bound in the environment and column names otherwise.
  Every string operand appears as one quoted literal from which no character of the operand can
  escape, and numbers, booleans and times appear in their exact SQL form."

  Model: `Yae/Model/Sql.lean` (`toSql` = `ext.CompileToSql`, `emit` = the closure built by
  `sql.Compile`, `fmtVal`), `Yae/Model/SqlRead.lean` (the reference reader `readSql` with standard
  SQL precedence; `c20Check` is the property in executable form, run by the differential stream
  `sql` on every generated criteria tree); `Yae/Spec/SqlSide.lean` (the side condition `sideOK`).
  Proofs: `Yae.Proofs.SqlLemmas`, `Yae.Proofs.NumLemmas`, and for the structural theorem
  `Yae.Proofs.SqlDoc` (the shape of the text), `SqlLexStr`/`SqlLexNum`/`SqlLex` (tokenizer),
  `SqlParseFuel`/`SqlParse` (parser), `SqlStructCheck` (type checker), `SqlStructTree`/`SqlStructBase`/
  `SqlStructCall`/`SqlStruct` (`emit`), `SqlStructWitness` (concrete runs through the polymorphic `IN`).

  What is PROVED here, and what is not:
  * **structure** (`structural`, `c20Check_holds`): whenever `toSql` produces a text and the
    decidable side condition `sideOK venv c` (`Yae/Spec/SqlSide.lean`) holds, the reference reader
    `readSql` — tokenizer and precedence-climbing parser with standard SQL precedence, run with the
    fuel it really uses — reads the text as a tree `t` with `flatten t = flatten w`, `w` the meaning
    `treeOf venv c` of the criteria; i.e. `c20Check c tenv venv = some true`.  No hypothesis on
    the compile-time environment, on string operands (arbitrary strings, see `tokenize_quote`:
    the reader's own scanner `strBody` + UTF-8 decoding reads `quote s` back as the one token
    `.str s` whatever follows), on the nesting of groups, on negative numbers or times.  The proof
    goes through the type checker (`check_nameOK`: a statically resolved call refers to a
    registered function with the callee's name), `emit` (`emit_doc`: the text is a well-formed
    `Doc`), the tokenizer (`tokens_doc`) and the parser (`parse_doc`, `parseOr_fuel_ok`).
    `sideOK` excludes the following, and for each exclusion a kernel-checked counterexample
    (`toSql` produces a text, `c20Check = some false`) is given below:
      - SQL1: a NaN / ±Inf number (`sql1_nan`, `sql1_inf`; the Float is a variable constrained by
        its bit pattern, `Float` being opaque to the kernel);
      - a column name containing a back quote (`backquote_in_column`);
      - SQL3: `IN` with an unbound list-typed NAME as second operand (`sql3_in_name`);
      - an empty list literal (`empty_list`; the checker lets `z IN []` through when `z : ⊥`), a
        one-element list literal elsewhere than directly under `IN` (`one_element_row`);
      - a function application as an operand of a condition where the missing parentheses matter
        (`call_operand_cmp`: `b = (s = t)` is written `b = s = t`; `call_operand_logic`:
        `b = (b AND c)` is written `b = b AND c`; `call_operand_first`: `(b AND c) = b` is written
        `b AND c = b`).  A condition as the FIRST operand (`(x = y) = z`, written `x = y = z`: the
        reader nests to the left) and applications as list items are allowed and proved
        (`first_operand_condition_ok`);
      - a `Cond` whose operator is named AND/OR/NOT (`cond_named_connective`): a defect of the
        specification function `treeOf` rather than of the Go code (it files such a `Cond` under
        `.cond`, the text is a connective).
    NOT proved: nothing about inputs outside `sideOK` (the exclusions are the counterexamples;
    for NaN/±Inf the witnesses use a literal, a bound name or `o.f` holding such a number goes
    through the same `fmtVal`).  `Num.isFinite x` cannot be discharged for a concrete `Float` in
    the kernel (`Float.toBits` is opaque): the non-vacuity example with numbers keeps the numbers as variables
    with finiteness hypotheses; a closed example (strings, a time, a bound name) is given as well.
  * scalars in their exact form: `fmtVal_bool`, `fmtVal_num`, `fmtVal_time`, `fmtVal_str`,
    `fmtVal_unsupported` (kernel-checked unfoldings; the findings SQL1 — NaN/±Inf written
    verbatim — and SQL2 — sub-second part of a time dropped — are visible in them), and
    `finite_number_is_literal`: every finite number is written as `-?digits(.digits)?`;
  * substitution: `bound_name_substituted`, `unbound_name_is_column`;
  * strings: `quote_roundtrip`, `quote_injective`, `string_literal_reads_back` (for the reader's
    own tokenizer, any operand, any following text) and the older
    `string_literal_reads_back_partial` (the same for the `strconv.Unquote` scanner);
  * nesting: `paren_rule_partial`, `paren_table`, `reader_parens` (subsumed by `structural`).
-/
import Yae.Proofs.SqlLemmas
import Yae.Proofs.SqlStruct
import Yae.Proofs.SqlStructWitness
namespace Yae.C20
open Yae Yae.Sql Yae.SqlLemmas

/-! ## scalars in their exact SQL form -/

theorem fmtVal_bool (b : Bool) : fmtVal (.bool b) = .ok (if b then "1" else "0") := rfl
theorem fmtVal_num (x : Float) : fmtVal (.num x) = .ok (Num.renderNum x) := rfl
theorem fmtVal_time (t : TimeV) :
    fmtVal (.time t) = .ok ("from_unixtime(" ++ toString t.sec ++ ")") := rfl
theorem fmtVal_str (s : String) : fmtVal (.str s) = .ok (Num.quote s) := rfl

/-- lists, maps, objects, optionals and functions have no SQL form; a Go nil is a run-time error -/
theorem fmtVal_unsupported :
    (∀ ty vs, fmtVal (.list ty vs) = .error .unsupportedVal) ∧
    (∀ ty es, fmtVal (.map ty es) = .error .unsupportedVal) ∧
    (∀ ty vs, fmtVal (.obj ty vs) = .error .unsupportedVal) ∧
    (∀ el v, fmtVal (.just el v) = .error .unsupportedVal) ∧
    (∀ el, fmtVal (.nothing el) = .error .unsupportedVal) ∧
    (∀ ty r l, fmtVal (.fn ty r l) = .error .unsupportedVal) ∧
    fmtVal .nil = .error .nilVal :=
  ⟨fun _ _ => rfl, fun _ _ => rfl, fun _ _ => rfl, fun _ _ => rfl, fun _ => rfl,
   fun _ _ _ => rfl, rfl⟩

/-! ## names: run-time value if bound, column otherwise -/

theorem bound_name_substituted (venv : List (String × Val)) (outer : Nat) (p : Pos)
    (name : String) (q : String × Val) (h : venv.find? (fun p => p.1 == name) = some q) :
    emit venv outer (.ident p name) = fmtVal q.2 := by
  rw [emit]; simp only [h]

example : List.find? (fun p => p.1 == "n") [("n", Val.str "a")] = some ("n", .str "a") := by rfl

theorem unbound_name_is_column (venv : List (String × Val)) (outer : Nat) (p : Pos)
    (name : String) (h : venv.find? (fun p => p.1 == name) = none) :
    emit venv outer (.ident p name) = .ok ("`" ++ name ++ "`") := by
  rw [emit]; simp only [h]; rfl

example : List.find? (fun p => p.1 == "n") ([] : List (String × Val)) = none := rfl

/-! ## string operands -/

/-- `strconv.Unquote(strconv.Quote(s)) = s` -/
theorem quote_roundtrip (s : String) : Num.unquote (Num.quote s) = some s := Num.unquote_quote s

/-- different operands give different literals -/
theorem quote_injective {a b : String} (h : Num.quote a = Num.quote b) : a = b :=
  Num.quote_injective h

/-- **no character of the operand can escape** (partial: for the `strconv.Unquote` scanner, see
the header).  The literal is `"` + body + `"`; reading the body followed by the closing quote and
then ANY further text `rest` decodes to exactly `s` and stops exactly before `rest`. -/
theorem string_literal_reads_back_partial (s : String) (rest : List Char) :
    ∃ body, (Num.quote s).toList = '"' :: (body ++ ['"']) ∧
      Num.unquoteBody '"' false (body.length + 1 + rest.length + 1) [] (body ++ '"' :: rest)
        = some (s.toList, rest) := by
  refine ⟨s.toList.flatMap Num.quoteChar, quote_toList s, ?_⟩
  have := quoted_scan s.toList rest ((s.toList.flatMap Num.quoteChar).length + 1 + rest.length + 1)
    [] (by have := Num.length_le_flatMap_quoteChar s.toList; omega)
  simpa using this

/-- the classic injection attempt: the operand `x" OR "1"="1` stays one literal -/
example : Num.quote "x\" OR \"1\"=\"1" = "\"x\\\" OR \\\"1\\\"=\\\"1\"" := by decide

/-! ## nesting -/

/-- **parenthesisation rule** (partial structural result, see the header): a call compiled in a
context of precedence `outer` — its arguments are compiled in the context of its own precedence —
is wrapped in parentheses iff it is a logical connective and `outer` is higher than its own
precedence. -/
theorem paren_rule_partial (venv : List (String × Val)) (outer : Nat) (p : Pos) (col : Int)
    (callee : Expr) (args : ExprList) (cty : Option Ty) (resolved : String) (index : Int)
    (d : FunDecl) (fm : Fmt) (xs : List String) (s : String)
    (hd : resolveStatic sqlFuns resolved index = some d) (hf : lookupFmt d = some fm)
    (hx : emitList venv (fm.prec?.getD 0) args = .ok xs) (hs : fm.apply xs = .ok s) :
    emit venv outer (.call p col callee args cty resolved index) =
      .ok (if fm.prec?.isSome && outer > fm.prec?.getD 0 then "(" ++ s ++ ")" else s) :=
  emit_call venv outer p col callee args cty resolved index d fm xs s hd hf hx hs

/-- non-vacuity: formatters are found for the registered functions and apply to their arity -/
example : lookupFmt { ty := .bool, ref := .host "LOGIC_OR_BOOL_BOOL" (.retArg 0), isLazy := false }
    = some .logicOr ∧ Fmt.logicOr.apply ["a", "b"] = .ok "a OR b" := ⟨by rfl, rfl⟩

/-- which connective is wrapped where: OR under AND; AND and OR under NOT; nothing under OR or at
the top level; a condition never.  With standard SQL precedence (comparison > NOT > AND > OR)
these are exactly the places where omitting the parentheses would change the reading. -/
theorem paren_table :
    (Fmt.logicOr.prec?.isSome && 4 > Fmt.logicOr.prec?.getD 0) = true ∧
    (Fmt.logicAnd.prec?.isSome && 4 > Fmt.logicAnd.prec?.getD 0) = false ∧
    (Fmt.logicNot.prec?.isSome && 4 > Fmt.logicNot.prec?.getD 0) = false ∧
    (Fmt.logicAnd.prec?.isSome && 3 > Fmt.logicAnd.prec?.getD 0) = false ∧
    (Fmt.logicOr.prec?.isSome && 3 > Fmt.logicOr.prec?.getD 0) = false ∧
    (Fmt.logicNot.prec?.isSome && 3 > Fmt.logicNot.prec?.getD 0) = false ∧
    (Fmt.logicAnd.prec?.isSome && 10 > Fmt.logicAnd.prec?.getD 0) = true ∧
    (Fmt.logicOr.prec?.isSome && 10 > Fmt.logicOr.prec?.getD 0) = true ∧
    (Fmt.logicNot.prec?.isSome && 10 > Fmt.logicNot.prec?.getD 0) = false ∧
    (∀ op outer, ((Fmt.binary op).prec?.isSome && outer > (Fmt.binary op).prec?.getD 0) = false) ∧
    (∀ op outer, ((Fmt.postfix op).prec?.isSome && outer > (Fmt.postfix op).prec?.getD 0) = false) ∧
    (∀ outer, (Fmt.between.prec?.isSome && outer > Fmt.between.prec?.getD 0) = false) :=
  SqlLemmas.paren_table

/-- the reader takes a parenthesised expression for the expression -/
theorem reader_parens (fuel : Nat) (ts rest : List Tok) (x : SqlTree)
    (h : parseItems fuel ts = some (.cons x .nil, rest)) :
    parsePrimary (fuel+1) (.sym "(" :: ts) = some (x, rest) := by
  rw [parsePrimary]
  simp only [h]
  rfl

example : parseItems 10 [.bq "a", .sym ")"] = some (.cons (.col "a") .nil, []) := by rfl

/-! the reader on the token sequences of the rows of `paren_table` (kernel-checked) -/

/-- `a AND (b OR c)`: the parentheses keep the OR together -/
example : parseOr 100 [.bq "a", .word "AND", .sym "(", .bq "b", .word "OR", .bq "c", .sym ")"] =
    some (.and (.cons (.col "a") (.cons (.or (.cons (.col "b") (.cons (.col "c") .nil))) .nil)), []) := by
  rfl
/-- `a AND b OR c` (AND under OR, no parentheses): AND binds tighter -/
example : parseOr 100 [.bq "a", .word "AND", .bq "b", .word "OR", .bq "c"] =
    some (.or (.cons (.and (.cons (.col "a") (.cons (.col "b") .nil))) (.cons (.col "c") .nil)), []) := by
  rfl
/-- `NOT (a AND b)` against `NOT a AND b` -/
example : parseOr 100 [.word "NOT", .sym "(", .bq "a", .word "AND", .bq "b", .sym ")"] =
    some (.not (.and (.cons (.col "a") (.cons (.col "b") .nil))), []) ∧
    parseOr 100 [.word "NOT", .bq "a", .word "AND", .bq "b"] =
    some (.and (.cons (.not (.col "a")) (.cons (.col "b") .nil)), []) := ⟨by rfl, by rfl⟩
/-- `NOT a = "x"`: the comparison binds tighter than NOT, a condition needs no parentheses -/
example : parseOr 100 [.word "NOT", .bq "a", .sym "=", .str "x"] =
    some (.not (.cond "=" (.cons (.col "a") (.cons (.str "x") .nil))), []) := by rfl
/-- `a AND b AND c` reads left-nested; the tree may be right-nested: equal up to `flatten` -/
example : (parseOr 100 [.bq "a", .word "AND", .bq "b", .word "AND", .bq "c"]).map (flatten ·.1) =
    some (flatten (.and (.cons (.col "a") (.cons (.and (.cons (.col "b") (.cons (.col "c") .nil))) .nil)))) := by
  rfl

/-! ## structure -/

/-- **C20, the structural theorem.**  Whenever a WHERE text is produced and the side condition
`sideOK venv c` holds (see the header for what it excludes and why), the reference reader — standard
SQL precedence: comparison, NOT, AND, OR — reads the text as the meaning of the criteria tree, up to
the associativity of AND and of OR. -/
theorem structural (c : Criteria) (tenv : List (String × Ty)) (venv : List (String × Val))
    (text : String) (h : toSql c tenv venv = .ok text) (hside : sideOK venv c = true) :
    ∃ t w, readSql text = some t ∧ treeOf venv c = some w ∧ flatten t = flatten w :=
  SqlStruct.structure_main c tenv venv text h hside

/-- the same in executable form: the differential check `c20Check` answers `true` -/
theorem c20Check_holds (c : Criteria) (tenv : List (String × Ty)) (venv : List (String × Val))
    (text : String) (h : toSql c tenv venv = .ok text) (hside : sideOK venv c = true) :
    c20Check c tenv venv = some true :=
  SqlStruct.c20Check_true c tenv venv text h hside

/-- `c20Check` answers only when a text was produced -/
theorem c20Check_some {c tenv venv b} (h : c20Check c tenv venv = some b) :
    ∃ text, toSql c tenv venv = .ok text := by
  unfold c20Check at h
  split at h
  · cases h
  · next text ht => exact ⟨text, ht⟩

/-- every string operand is one token of the reader, whatever follows (the reader's own scanner) -/
theorem string_literal_reads_back (s : String) (fuel : Nat) (rest : List Char) (acc : List Tok) :
    tokenize (fuel + 1) ((Num.quote s).toList ++ rest) acc = tokenize fuel rest (Tok.str s :: acc) :=
  SqlLex.tokenize_quote s fuel rest acc

/-- every finite number is written as a numeric literal `-?digits(.digits)?` -/
theorem finite_number_is_literal (x : Float) (h : Num.isFinite x = true) :
    SqlLex.IsNumLex (Num.renderNum x).toList :=
  SqlLex.renderNumBits_isNumLex _ (SqlStruct.isFinite_expField h)

/-! ### the exclusions of `sideOK` are necessary: counterexamples -/

private def u := Pos.unknown
private def el (xs : List Expr) := ExprList.ofList xs

/-- `Except` has no decidable equality: "the text is `s`" as a Bool -/
def textIs (r : Except SqlErr String) (s : String) : Bool :=
  match r with
  | .ok t => t == s
  | .error _ => false

theorem textIs_iff {r : Except SqlErr String} {s : String} : textIs r s = true ↔ r = .ok s := by
  cases r <;> simp [textIs]

/-- SQL1: NaN is written verbatim, which is not a literal of the dialect -/
theorem sql1_nan (x : Float) (hx : x.toBits = Num.nanBits) :
    toSql (.cond "a" "=" (el [.num u x])) [("a", .num)] [] = .ok "`a` = NaN" ∧
    c20Check (.cond "a" "=" (el [.num u x])) [("a", .num)] [] = some false ∧
    sideOK [] (.cond "a" "=" (el [.num u x])) = false := by
  have h1 : toSql (.cond "a" "=" (el [.num u x])) [("a", .num)] [] =
      .ok ("`a`" ++ " " ++ "=" ++ " " ++ Num.renderNum x) := by rfl
  have h2 : Num.renderNum x = "NaN" := by unfold Num.renderNum; rw [hx]; decide +kernel
  have h3 : readSql ("`a`" ++ " " ++ "=" ++ " " ++ "NaN") = none := by decide +kernel
  have h4 : "`a`" ++ " " ++ "=" ++ " " ++ "NaN" = "`a` = NaN" := by decide +kernel
  have h5 : Num.isFinite x = false := by unfold Num.isFinite; rw [hx]; decide +kernel
  rw [h2] at h1
  refine ⟨by rw [h1, h4], ?_, ?_⟩
  · unfold c20Check; rw [h1]; simp only [h3]
  · simp [sideOK, Criteria.expr, mkCall, okE, okList, el, ExprList.ofList, argPos, logicNames,
      ArgPos.head, ArgPos.tail, h5]

/-- SQL1: +Inf likewise -/
theorem sql1_inf (x : Float) (hx : x.toBits = Num.infBits) :
    toSql (.cond "a" "=" (el [.num u x])) [("a", .num)] [] = .ok "`a` = +Inf" ∧
    c20Check (.cond "a" "=" (el [.num u x])) [("a", .num)] [] = some false := by
  have h1 : toSql (.cond "a" "=" (el [.num u x])) [("a", .num)] [] =
      .ok ("`a`" ++ " " ++ "=" ++ " " ++ Num.renderNum x) := by rfl
  have h2 : Num.renderNum x = "+Inf" := by unfold Num.renderNum; rw [hx]; decide +kernel
  have h3 : readSql ("`a`" ++ " " ++ "=" ++ " " ++ "+Inf") = none := by decide +kernel
  have h4 : "`a`" ++ " " ++ "=" ++ " " ++ "+Inf" = "`a` = +Inf" := by decide +kernel
  rw [h2] at h1
  refine ⟨by rw [h1, h4], ?_⟩
  unfold c20Check; rw [h1]; simp only [h3]

/-- a back quote in a column name ends the identifier early -/
theorem backquote_in_column :
    textIs (toSql (.cond "a`b" "=" (el [.str u "x"])) [("a`b", .str)] []) "`a`b` = \"x\"" = true ∧
    c20Check (.cond "a`b" "=" (el [.str u "x"])) [("a`b", .str)] [] = some false ∧
    sideOK [] (.cond "a`b" "=" (el [.str u "x"])) = false := by decide +kernel

/-- an application as an operand is not parenthesised: `b = (s = t)` is written `b = s = t`, which
reads `(b = s) = t` -/
theorem call_operand_cmp :
    textIs (toSql (.cond "b" "=" (el [mkCall "=" (el [.ident u "s", .ident u "t"])]))
      [("b", .bool), ("s", .str), ("t", .str)] []) "`b` = `s` = `t`" = true ∧
    c20Check (.cond "b" "=" (el [mkCall "=" (el [.ident u "s", .ident u "t"])]))
      [("b", .bool), ("s", .str), ("t", .str)] [] = some false ∧
    sideOK [] (.cond "b" "=" (el [mkCall "=" (el [.ident u "s", .ident u "t"])])) = false := by
  decide +kernel

/-- … and `b = (b AND c)` is written `b = b AND c`, which reads `(b = b) AND c` -/
theorem call_operand_logic :
    textIs (toSql (.cond "b" "=" (el [mkCall "AND" (el [.ident u "b", .ident u "c"])]))
      [("b", .bool), ("c", .bool)] []) "`b` = `b` AND `c`" = true ∧
    c20Check (.cond "b" "=" (el [mkCall "AND" (el [.ident u "b", .ident u "c"])]))
      [("b", .bool), ("c", .bool)] [] = some false ∧
    sideOK [] (.cond "b" "=" (el [mkCall "AND" (el [.ident u "b", .ident u "c"])])) = false := by
  decide +kernel

open SqlStruct.Wit in
/-- … also as the FIRST operand (only expressible inside a list item): `(b AND c) = b` is written
`b AND c = b`, which reads `b AND (c = b)` -/
theorem call_operand_first :
    toSql cFirstBad tFirst [] = .ok "`b` IN (`b` AND `c` = `b`)" ∧
    c20Check cFirstBad tFirst [] = some false ∧ sideOK [] cFirstBad = false :=
  ⟨firstBad_text, firstBad_check, by decide +kernel⟩

open SqlStruct.Wit in
/-- whereas a *condition* as the first operand needs no parentheses: `(s = t) = b` is written
`s = t = b` and the reader nests to the left; the side condition admits it -/
theorem first_operand_condition_ok :
    toSql cFirstGood tFirst [] = .ok "`b` IN (`s` = `t` = `b`)" ∧ sideOK [] cFirstGood = true ∧
    c20Check cFirstGood tFirst [] = some true :=
  ⟨firstGood_text, by decide +kernel,
    c20Check_holds _ _ _ _ firstGood_text (by decide +kernel)⟩

/-- a `Cond` named like a connective: the text is the connective, `treeOf` says condition -/
theorem cond_named_connective :
    textIs (toSql (.cond "b" "AND" (el [.ident u "c"])) [("b", .bool), ("c", .bool)] [])
      "`b` AND `c`" = true ∧
    c20Check (.cond "b" "AND" (el [.ident u "c"])) [("b", .bool), ("c", .bool)] [] = some false ∧
    c20Check (.cond "b" "NOT" (el [])) [("b", .bool)] [] = some false ∧
    sideOK [] (.cond "b" "AND" (el [.ident u "c"])) = false := by
  decide +kernel

open SqlStruct.Wit in
/-- SQL3: an unbound list-typed name as the second operand of `IN` -/
theorem sql3_in_name :
    toSql cSql3 tSql3 [] = .ok "`a` IN `l`" ∧ c20Check cSql3 tSql3 [] = some false ∧
    sideOK [] cSql3 = false :=
  ⟨sql3_text, sql3_check, by decide +kernel⟩

open SqlStruct.Wit in
/-- `IN ()`: the reader (and SQL) wants at least one item -/
theorem empty_list :
    toSql cEmpty tEmpty [] = .ok "`z` IN ()" ∧ c20Check cEmpty tEmpty [] = some false ∧
    sideOK [] cEmpty = false :=
  ⟨empty_text, empty_check, by decide +kernel⟩

open SqlStruct.Wit in
/-- a one-element row is read as a parenthesised expression -/
theorem one_element_row :
    toSql cOne tOne [] = .ok "`l` IN ((\"x\"), (\"y\"))" ∧ c20Check cOne tOne [] = some false ∧
    sideOK [] cOne = false :=
  ⟨one_text, one_check, by decide +kernel⟩

/-! ### non-vacuity: the hypotheses of `structural` are met -/

open SqlStruct.Wit in
/-- `(a = "x" OR t > from_unixtime(-3)) AND NOT (c IN ("p", n))` with `n` bound to the string
``q"` `` at run time: a text is produced, the side condition holds -/
example : toSql cGood tGood vGood =
      .ok "(`a` = \"x\" OR `t` > from_unixtime(-3)) AND NOT `c` IN (\"p\", \"q\\\"`\")" ∧
    sideOK vGood cGood = true :=
  ⟨good_text, by decide +kernel⟩

open SqlStruct.Wit in
example : c20Check cGood tGood vGood = some true :=
  c20Check_holds _ _ _ _ good_text (by decide +kernel)

open SqlStruct.Wit in
/-- `(a = "x" OR b > x3) AND NOT (c IN (x1, x2))` with `b` bound to the number `y` at run time, for
any finite numbers (`Float` is opaque to the kernel, hence the variables) -/
theorem numbers_example (x3 x1 x2 y : Float) (h3 : Num.isFinite x3 = true)
    (h1 : Num.isFinite x1 = true) (h2 : Num.isFinite x2 = true) (hy : Num.isFinite y = true) :
    c20Check (cNum x3 x1 x2) tNum (vNum y) = some true := by
  obtain ⟨text, ht⟩ := num_ok x3 x1 x2 y
  refine c20Check_holds _ _ _ text ht ?_
  simp [sideOK, cNum, vNum, condOpsOK, condOpsOKList, Criteria.expr, exprs, mkCall, okE, okList,
    okName, okVal, argPos, logicNames, LogicalOper.name, ArgPos.head, ArgPos.tail, ExprList.length,
    ExprList.ofList, SqlStruct.Wit.el, h1, h2, h3, hy]

/-- the finiteness hypothesis is satisfiable at the level of bit patterns -/
example : Num.expField 0x4008000000000000 ≠ 2047 := by decide


end Yae.C20

#print axioms Yae.C20.fmtVal_bool
#print axioms Yae.C20.fmtVal_num
#print axioms Yae.C20.fmtVal_time
#print axioms Yae.C20.fmtVal_str
#print axioms Yae.C20.fmtVal_unsupported
#print axioms Yae.C20.bound_name_substituted
#print axioms Yae.C20.unbound_name_is_column
#print axioms Yae.C20.quote_roundtrip
#print axioms Yae.C20.quote_injective
#print axioms Yae.C20.string_literal_reads_back_partial
#print axioms Yae.C20.paren_rule_partial
#print axioms Yae.C20.paren_table
#print axioms Yae.C20.reader_parens
#print axioms Yae.C20.structural
#print axioms Yae.C20.c20Check_holds
#print axioms Yae.C20.c20Check_some
#print axioms Yae.C20.string_literal_reads_back
#print axioms Yae.C20.finite_number_is_literal
#print axioms Yae.C20.sql1_nan
#print axioms Yae.C20.sql1_inf
#print axioms Yae.C20.backquote_in_column
#print axioms Yae.C20.call_operand_cmp
#print axioms Yae.C20.call_operand_logic
#print axioms Yae.C20.cond_named_connective
#print axioms Yae.C20.call_operand_first
#print axioms Yae.C20.first_operand_condition_ok
#print axioms Yae.C20.sql3_in_name
#print axioms Yae.C20.empty_list
#print axioms Yae.C20.one_element_row
#print axioms Yae.C20.numbers_example
