/-
  THE ENGINE WHOSE `vm` BACK END IS THE MACHINE, AND ITS REFINEMENT TO THE ENGINE OF `Engine.lean`.

  `Yae/Model/Engine.lean` models every back end of `facade.go` by the reference evaluator;
  `api_sound` (`Yae/Props/Api.lean`) is proved about that engine.  `Yae/Model/EngineVm.lean` is the
  same state machine in which `vm.Compile` — the DEFAULT compiler of `NewExpr` — really compiles
  to bytecode (`Vm.compile`) when `Compile` is called and really runs the machine (`Vm.runVm`) when
  the Callable is invoked.  Here: for every history of API calls the two engines give the same
  outputs, step by step, except where the VM compiler refuses; hence `api_sound` holds of
  `EngineVm` (`api_sound_vm`).  Proofs: `Yae/Proofs/EngineVmRun.lean` (histories from the left,
  the lockstep `run_sim`), `EngineVmInvoke.lean` (one invocation: `C03.runVm_correct_checked`
  with its hypotheses discharged from the invariant `Api.Inv`), `EngineVmRefine.lean` (the steps
  of a history), `EngineVmWitness.lean` (the concrete history).

  ## What the Go API does when the VM compiler refuses (header of `Yae/Model/EngineVm.lean`)

  `util.Assert(…, "overflow")` (vm/compiler.go:206, :215, :227) panics; nothing recovers before
  `defer e.backStrace("compile", &err)` in `Expr.Compile` (facade.go:186; `backStrace`
  facade.go:257-265), which turns it into the returned `err` (text `overflow`); the result `c`
  stays `nil`.  So a refusal is an ordinary compile ERROR, the engine stays initialised, and no
  Callable exists.  In the model: `Out`/`OutVm` `compiled (.error (.vm .overflow))`.

  ## The theorems

  * `engines_agree` (no hypothesis): after every history both engines are in the same state.
  * `engineVm_refines`.  HYPOTHESES, about the calls of the history only:
      `hreg`, `htenv`, `hvenv`  as in `api_sound` (registered functions respect their signature,
               compile-time types well formed and variable free, run-time values `WF`).  Needed
               because the machine is tied to the evaluator only for CHECKED trees in CONFORMING
               environments (`C03.runVm_correct_checked`; on an internal fault of the evaluator the
               machine does differ: `C03.unbound_identifier_differs`).
      `hnl`    no run-time environment handed to an `invoke` binds a value that contains a lazy
               function VALUE (`VmChk.noLazy`, i.e. `C03.NoLazyFunValues`).  Needed: defect D20,
               `C03.checked_needs_noLazy` — with a lazy function value the evaluator and the
               machine return different results on a checked program.
      NOT needed: `LateOK` (late binding concerns `interp.Interp` only, and that back end is the
      same function in both engines), nothing about `useCompiler` / `useBuiltIn` /
      `registerOperator`, nothing about the order of calls.  The proof forced NO further
      hypothesis.
    CONCLUSION, for every step `i`: one of
      (1) the output of `EngineVm`, its code erased (`OutVm.erase`), IS the output of `Engine`
          (also beyond the end of the history: both `none`);
      (2) step `i` is a `compile`; `Engine` returned a `vm` Callable `c`, `EngineVm` returned the
          compile error `.vm err`, and `err` is what `Vm.compile c.funs c.tree` fails with;
      (3) step `i` is an `invoke k` of such a refused compilation `k < i`: `EngineVm` answers
          `noCallable`, `Engine` answers with a result;
      (4) step `i` is an `invokeC` of a `vm` Callable obtained anywhere: nothing is claimed
          (nothing is known about such a Callable; as in `api_sound`).
  * `refusal_exact`: WHEN (2) happens, for the Callables of a history: the tree is well annotated;
    `vm.Compile` refuses it iff `VmChk.sizes` (the compiler run on sizes only) overflows, and then
    the error is `overflow`; and then the tree has more than 4095 nodes or a call with more than
    255 arguments (`C03.refuse_exact`, `C03.compiles_small`).
  * `engineVm_refines_small`: if every Callable `Engine` returns in the history is that small
    and no `vm` Callable is passed to `invokeC`, (1) holds at EVERY step.
  * `api_sound_vm`: the four-way conclusion of `api_sound`, for `EngineVm.run`: an `invoke k` at
    step `i` answers (a) `noCallable`, and step `k` holds no Callable (now ALSO when the VM
    compiler refused at `k`); or step `k < i` returned the Callable `cv` and (b) the environment
    error with an empty log, (c) a value of the compile-time type, or (d) an `Allowed` failure.
    Hypotheses: those of `api_sound` (`LateOK` stated on `Engine.run`, whose Callables are those of
    `EngineVm.run` by (1)) plus `hnl`.
  * Non-vacuity, `histVm` (`Yae/Proofs/EngineVmWitness.lean`): register a host function, compile
    `x + 1` (back end `vm`, the default), invoke with `x = 1`, invoke with `x` missing — the
    hypotheses hold (`histVm_hyps`), the Callable is small (`histVm_small`), so by
    `engineVm_refines_small` all four outputs agree (`histVm_same`).  Proved by the theorem; the
    kernel evaluates only the front end on `"x + 1"` (`decide +kernel`, as `EngineWitness`).

  ## NOT proved here

  * A history-level witness that `hnl` cannot be dropped (the one-run witness is
    `C03.checked_needs_noLazy`; lifting it needs the front end evaluated on `h.f(1)` with an
    object-typed `env0`).
  * A history-level witness that cases (2)/(3) occur (a SOURCE the VM compiler refuses): the
    tree-level witness is `C03.overflows_long_list` (a list literal of more than 65 535 numbers is
    accepted by the checker and refused by `Vm.compile`); running the executable model on
    `[.compile [] [] "[1,1,…,1]" (70 000 members), .invoke 0 [] {}]` gives
    `compiled (.error (.vm .overflow))`, `noCallable` for `EngineVm` and a Callable, a list value
    for `Engine` (`#eval`, a test, not a theorem: the kernel cannot lex 140 000 characters).
  * `EngineVm.invoke` hands the machine `e.tableFor c` (= `c.funs` for `vm`), Go hands it the
    current table; `Vm.run` never reads `env.funs` (by inspection of `Yae/Model/Vm.lean`), but
    that independence is not proved as a lemma.
  * The model's limits are those of `Engine.lean` and of C03 (the machine is `switchThreading`).
-/
import Yae.Proofs.EngineVmRefine
import Yae.Proofs.EngineVmWitness
import Yae.Props.Api
namespace Yae.EngineVmProps
open Yae Yae.Facade Yae.Api Yae.EngVm Yae.ApiProps

/-- **The two engines are always in the same state** (no hypothesis). -/
theorem engines_agree (ops : List Op) :
    (EngineVm.new.run ops).1.eng = (Engine.new.run ops).1 :=
  (run_sim EngineVm.new ops).1

/-- … and they answer the same number of calls -/
theorem outputs_length (ops : List Op) :
    (EngineVm.new.run ops).2.length = (Engine.new.run ops).2.length :=
  (run_sim EngineVm.new ops).2.1

/-- **Refinement.**  Step by step, `EngineVm.run` returns what `Engine.run` returns, except where
the VM compiler refuses. -/
theorem engineVm_refines (ops : List Op)
    (hreg : ∀ d, Op.registerFun d ∈ ops → (∃ n ps r, d.ty = .fn n ps r) → Sound.declOK d = true)
    (htenv : ∀ times tenv src, Op.compile times tenv src ∈ ops →
      ∀ p ∈ tenv, p.2.wf = true ∧ slotFree p.2 = true)
    (hvenv : ∀ k venv ext, Op.invoke k venv ext ∈ ops → ∀ p ∈ venv, Sound.WF p.2 = true)
    (hnl : ∀ k venv ext, Op.invoke k venv ext ∈ ops → ∀ p ∈ venv, VmChk.noLazy p.2 = true)
    (i : Nat) :
    -- (1)
    ((EngineVm.new.run ops).2[i]?).bind OutVm.erase = (Engine.new.run ops).2[i]? ∨
    -- (2)
    (∃ times tenv src c err, ops[i]? = some (.compile times tenv src) ∧
      (Engine.new.run ops).2[i]? = some (.compiled (.ok c)) ∧
      (EngineVm.new.run ops).2[i]? = some (.compiled (.error (.vm err))) ∧
      c.backend = .vm ∧ Vm.compile c.funs c.tree = .error err) ∨
    -- (3)
    (∃ k venv ext c err r, ops[i]? = some (.invoke k venv ext) ∧ k < i ∧
      (∃ times src, ops[k]? = some (.compile times c.tenv src)) ∧
      (Engine.new.run ops).2[k]? = some (.compiled (.ok c)) ∧
      (EngineVm.new.run ops).2[k]? = some (.compiled (.error (.vm err))) ∧
      c.backend = .vm ∧ Vm.compile c.funs c.tree = .error err ∧
      (EngineVm.new.run ops).2[i]? = some .noCallable ∧
      (Engine.new.run ops).2[i]? = some (.result r)) ∨
    -- (4)
    (∃ c venv ext, ops[i]? = some (.invokeC c venv ext) ∧ c.backend = .vm) := by
  cases hop : ops[i]? with
  | none =>
    left
    have hi : ops.length ≤ i := by
      rcases Nat.lt_or_ge i ops.length with h | h
      · rw [List.getElem?_eq_getElem h] at hop; cases hop
      · exact h
    rw [List.getElem?_eq_none (by rw [EngVm.run_length]; exact hi),
      List.getElem?_eq_none (by rw [Api.run_length]; exact hi)]
    rfl
  | some op =>
    cases op with
    | registerFun d =>
      obtain ⟨h1, h2⟩ := plain_step hop (.inl ⟨d, rfl⟩)
      left; rw [h1, h2]; rfl
    | registerOperator o =>
      obtain ⟨h1, h2⟩ := plain_step hop (.inr (.inl ⟨o, rfl⟩))
      left; rw [h1, h2]; rfl
    | useBuiltIn f =>
      obtain ⟨h1, h2⟩ := plain_step hop (.inr (.inr (.inl ⟨f, rfl⟩)))
      left; rw [h1, h2]; rfl
    | useCompiler b =>
      obtain ⟨h1, h2⟩ := plain_step hop (.inr (.inr (.inr ⟨b, rfl⟩)))
      left; rw [h1, h2]; rfl
    | compile times tenv src =>
      rcases compile_step hop with ⟨err, h1, h2⟩ | ⟨c, h1, ⟨h2, _⟩ | ⟨err, h2, h3⟩⟩
      · left; rw [h1, h2]; rfl
      · left; rw [h1, h2]; rfl
      · exact .inr (.inl ⟨times, tenv, src, c, err, rfl, h1, h2, h3.1, h3.2⟩)
    | invoke k venv ext =>
      rcases invoke_cases (opsOK_of hreg htenv) hvenv hnl hop with
        ⟨h1, h2, _, _⟩ | ⟨c, r, _, _, _, _, h1, h2⟩ | ⟨c, err, r, hki, hc, hv, href, hsrc, h1, h2⟩
      · left; rw [h1, h2]; rfl
      · left; rw [h1, h2]; rfl
      · exact .inr (.inr (.inl ⟨k, venv, ext, c, err, r, rfl, hki, hsrc, hc, hv, href.1, href.2,
          h1, h2⟩))
    | invokeC c venv ext =>
      by_cases hb : c.backend = .vm
      · exact .inr (.inr (.inr ⟨c, venv, ext, rfl, hb⟩))
      · obtain ⟨r, h1, h2⟩ := invokeC_step hop hb
        left; rw [h1, h2]; rfl

/-- the Callables of a history are `Api.CallableOK` -/
theorem callableOK_of_history (ops : List Op)
    (hreg : ∀ d, Op.registerFun d ∈ ops → (∃ n ps r, d.ty = .fn n ps r) → Sound.declOK d = true)
    (htenv : ∀ times tenv src, Op.compile times tenv src ∈ ops →
      ∀ p ∈ tenv, p.2.wf = true ∧ slotFree p.2 = true)
    {k : Nat} {c : Callable} (hc : (Engine.new.run ops).2[k]? = some (.compiled (.ok c))) :
    CallableOK c :=
  ((run_inv funsOK_new ops (opsOK_of hreg htenv)).call k c (by rw [hc]; rfl)).2.1

/-- **When the VM compiler refuses a Callable the engine returned** (any engine with a respectful
table, any good `env0`): the tree is well annotated; refused iff the compiler run on sizes
overflows, always with `overflow`; never a tree of at most 4095 nodes whose calls have at most
255 arguments. -/
theorem refusal_exact_callable {c : Callable} (hok : CallableOK c) :
    Yae.C03.WellAnnotated c.funs c.tree ∧
    (∀ err, (c.backend = .vm ∧ Vm.compile c.funs c.tree = .error err) ↔
      (c.backend = .vm ∧ err = .overflow ∧ VmChk.sizes c.funs c.tree = .error .overflow)) ∧
    (VmChk.argsOK c.tree = true → VmChk.nodes c.tree ≤ 4095 →
      ∃ code pool, Vm.compile c.funs c.tree = .ok (code, pool)) := by
  obtain ⟨⟨e0, times, src, hc, hf⟩, ht⟩ := hok
  obtain ⟨_, hfuns, _, hsrc⟩ := EngineHistory.compile_callable hc
  obtain ⟨d, c', hchk⟩ := compileSrc_check hsrc
  have hw : Yae.C03.WellAnnotated c.funs c.tree := by
    rw [hfuns]
    exact Yae.C03.checked_wellAnnotated (Γ := e0.init.tenvOf c.tenv) hf ht hchk
  refine ⟨hw, fun err => ⟨fun ⟨hb, he⟩ => ?_, fun ⟨hb, he, hs⟩ => ?_⟩,
    fun ha hn => Yae.C03.compiles_small hw ha hn⟩
  · have := Yae.C03.refuse_overflow hw he
    subst this
    exact ⟨hb, rfl, ((Yae.C03.refuse_exact c.funs c.tree).1 _).1 he⟩
  · subst he
    exact ⟨hb, ((Yae.C03.refuse_exact c.funs c.tree).1 _).2 hs⟩

/-- **When case (2) of `engineVm_refines` happens**, for the Callables of a history. -/
theorem refusal_exact (ops : List Op)
    (hreg : ∀ d, Op.registerFun d ∈ ops → (∃ n ps r, d.ty = .fn n ps r) → Sound.declOK d = true)
    (htenv : ∀ times tenv src, Op.compile times tenv src ∈ ops →
      ∀ p ∈ tenv, p.2.wf = true ∧ slotFree p.2 = true)
    {k : Nat} {c : Callable} (hc : (Engine.new.run ops).2[k]? = some (.compiled (.ok c))) :
    Yae.C03.WellAnnotated c.funs c.tree ∧
    (∀ err, (c.backend = .vm ∧ Vm.compile c.funs c.tree = .error err) ↔
      (c.backend = .vm ∧ err = .overflow ∧ VmChk.sizes c.funs c.tree = .error .overflow)) ∧
    (VmChk.argsOK c.tree = true → VmChk.nodes c.tree ≤ 4095 →
      ∃ code pool, Vm.compile c.funs c.tree = .ok (code, pool)) :=
  refusal_exact_callable (callableOK_of_history ops hreg htenv hc)

/-- **Small programs only: the same outputs at every step.**  If every Callable the history
produces has at most 4095 nodes and no call of more than 255 arguments, and no `vm` Callable
obtained elsewhere is invoked, `EngineVm.run` and `Engine.run` agree everywhere. -/
theorem engineVm_refines_small (ops : List Op)
    (hreg : ∀ d, Op.registerFun d ∈ ops → (∃ n ps r, d.ty = .fn n ps r) → Sound.declOK d = true)
    (htenv : ∀ times tenv src, Op.compile times tenv src ∈ ops →
      ∀ p ∈ tenv, p.2.wf = true ∧ slotFree p.2 = true)
    (hvenv : ∀ k venv ext, Op.invoke k venv ext ∈ ops → ∀ p ∈ venv, Sound.WF p.2 = true)
    (hnl : ∀ k venv ext, Op.invoke k venv ext ∈ ops → ∀ p ∈ venv, VmChk.noLazy p.2 = true)
    (hsmall : ∀ (k : Nat) (c : Callable), (Engine.new.run ops).2[k]? = some (.compiled (.ok c)) →
      VmChk.argsOK c.tree = true ∧ VmChk.nodes c.tree ≤ 4095)
    (hown : ∀ c venv ext, Op.invokeC c venv ext ∈ ops → c.backend ≠ .vm) (i : Nat) :
    ((EngineVm.new.run ops).2[i]?).bind OutVm.erase = (Engine.new.run ops).2[i]? := by
  have hno : ∀ (k : Nat) (c : Callable) (err : Vm.CErr),
      (Engine.new.run ops).2[k]? = some (.compiled (.ok c)) →
      Vm.compile c.funs c.tree ≠ .error err := by
    intro k c err hc he
    obtain ⟨code, pool, hcomp⟩ :=
      (refusal_exact ops hreg htenv hc).2.2 (hsmall k c hc).1 (hsmall k c hc).2
    rw [hcomp] at he
    cases he
  rcases engineVm_refines ops hreg htenv hvenv hnl i with h | ⟨_, _, _, c, err, _, hc, _, _, he⟩ |
    ⟨k, _, _, c, err, _, _, _, _, hc, _, _, he, _⟩ | ⟨c, venv, ext, hop, hb⟩
  · exact h
  · exact absurd he (hno i c err hc)
  · exact absurd he (hno k c err hc)
  · exact absurd hb (hown c venv ext (List.mem_of_getElem? hop))

/-- **API-level soundness of the engine with the real machine**, for every history on a fresh
engine. -/
theorem api_sound_vm (ops : List Op)
    (hreg : ∀ d, Op.registerFun d ∈ ops → (∃ n ps r, d.ty = .fn n ps r) → Sound.declOK d = true)
    (htenv : ∀ times tenv src, Op.compile times tenv src ∈ ops →
      ∀ p ∈ tenv, p.2.wf = true ∧ slotFree p.2 = true)
    (hvenv : ∀ k venv ext, Op.invoke k venv ext ∈ ops → ∀ p ∈ venv, Sound.WF p.2 = true)
    (hnl : ∀ k venv ext, Op.invoke k venv ext ∈ ops → ∀ p ∈ venv, VmChk.noLazy p.2 = true)
    (hlate : LateOK Engine.new ops)
    {i k : Nat} {venv : List (String × Val)} {ext : Externs} {out : OutVm}
    (hop : ops[i]? = some (.invoke k venv ext))
    (hout : (EngineVm.new.run ops).2[i]? = some out) :
    -- (a)
    (out = .noCallable ∧
      ∀ cv, k < i → (EngineVm.new.run ops).2[k]? ≠ some (.compiled (.ok cv))) ∨
    ∃ cv, k < i ∧ (EngineVm.new.run ops).2[k]? = some (.compiled (.ok cv)) ∧
      (∃ times src, ops[k]? = some (.compile times cv.toCallable.tenv src)) ∧
      -- (b)
      ((∃ err, envCheck cv.toCallable.tenv venv = .error err ∧
          out = .result (.error (.env err), [])) ∨
       (envCheck cv.toCallable.tenv venv = .ok () ∧
          -- (c)
         ((∃ v evs, out = .result (.ok v, evs) ∧ Sound.HasTy v cv.toCallable.ty) ∨
          -- (d)
          (∃ f evs, out = .result (.error (.fail f), evs) ∧ Sound.Allowed f)))) := by
  rcases invoke_cases (opsOK_of hreg htenv) hvenv hnl hop with
    ⟨h1, _, h3, _⟩ | ⟨c, r, hki, hc, hv, _, h1, h2⟩ | ⟨c, err, r, hki, _, hv, _, _, h1, _⟩
  · rw [h1] at hout
    cases hout
    exact .inl ⟨rfl, h3⟩
  · rw [h1] at hout
    cases hout
    right
    rcases api_sound ops hreg htenv hvenv hlate hop h2 with ⟨h, _⟩ | ⟨c', _, hc', hsrc, h⟩
    · cases h
    · rw [hc] at hc'
      cases hc'
      refine ⟨.ofCallable c, hki, hv, hsrc, ?_⟩
      rcases h with ⟨err, he, hr⟩ | ⟨hacc, ⟨v, evs, hr, hty⟩ | ⟨f, evs, hr, hf⟩⟩
      · cases hr; exact .inl ⟨err, he, rfl⟩
      · cases hr; exact .inr ⟨hacc, .inl ⟨v, evs, rfl, hty⟩⟩
      · cases hr; exact .inr ⟨hacc, .inr ⟨f, evs, rfl, hf⟩⟩
  · rw [h1] at hout
    cases hout
    refine .inl ⟨rfl, fun cv _ hk => ?_⟩
    rw [hv] at hk
    cases hk

/-! ## non-vacuity -/

/-- `histVm` (register the host function `string(a) : str`, compile `x + 1` with `x : num` — the
back end is `vm`, the default —, invoke with `x = 1`, invoke with `x` missing) satisfies the
hypotheses of `engineVm_refines` and of `api_sound_vm` -/
theorem histVm_hyps :
    (∀ d, Op.registerFun d ∈ histVm → (∃ n ps r, d.ty = .fn n ps r) → Sound.declOK d = true) ∧
    (∀ times tenv src, Op.compile times tenv src ∈ histVm →
      ∀ p ∈ tenv, p.2.wf = true ∧ slotFree p.2 = true) ∧
    (∀ k venv ext, Op.invoke k venv ext ∈ histVm → ∀ p ∈ venv, Sound.WF p.2 = true) ∧
    (∀ k venv ext, Op.invoke k venv ext ∈ histVm → ∀ p ∈ venv, VmChk.noLazy p.2 = true) ∧
    LateOK Engine.new histVm ∧
    (∀ c venv ext, Op.invokeC c venv ext ∈ histVm → c.backend ≠ .vm) := by
  refine ⟨histGood_hyps.1, histGood_hyps.2.1, histGood_hyps.2.2.1, fun k venv ext hi p hp => ?_,
    histGood_hyps.2.2.2.2, fun c venv ext hi => ?_⟩
  · simp only [histVm, histGood, List.mem_cons, List.not_mem_nil, or_false, reduceCtorEq,
      false_or, Op.invoke.injEq] at hi
    rcases hi with ⟨_, rfl, _⟩ | ⟨_, rfl, _⟩
    · simp only [List.mem_singleton] at hp
      subst hp
      rfl
    · cases hp
  · simp [histVm, histGood] at hi

/-- the only Callable of `histVm` is small, and it is a `vm` Callable -/
theorem histVm_small : ∀ (k : Nat) (c : Callable),
    (Engine.new.run histVm).2[k]? = some (.compiled (.ok c)) →
    VmChk.argsOK c.tree = true ∧ VmChk.nodes c.tree ≤ 4095 :=
  fun k c h => (EngVm.histVm_callable k c h).2

/-- **the two engines give the same four outputs on `histVm`**: by the theorem -/
theorem histVm_same (i : Nat) :
    ((EngineVm.new.run histVm).2[i]?).bind OutVm.erase = (Engine.new.run histVm).2[i]? :=
  engineVm_refines_small histVm histVm_hyps.1 histVm_hyps.2.1 histVm_hyps.2.2.1
    histVm_hyps.2.2.2.1 histVm_small histVm_hyps.2.2.2.2.2 i

/-- … the second of which is a `vm` Callable, and the third the value of the machine run -/
theorem histVm_outputs :
    ∃ c r, (Engine.new.run histVm).2[1]? = some (.compiled (.ok c)) ∧ c.backend = .vm ∧
      (EngineVm.new.run histVm).2[1]? = some (.compiled (.ok (.ofCallable c))) ∧
      (∃ code pool, (CallableVm.ofCallable c).vmCode = some (.ok (code, pool))) ∧
      (EngineVm.new.run histVm).2[2]? = some (.result r) ∧
      (Engine.new.run histVm).2[2]? = some (.result r) := by
  rcases invoke_cases (ops := histVm) (opsOK_of histVm_hyps.1 histVm_hyps.2.1) histVm_hyps.2.2.1
    histVm_hyps.2.2.2.1 (i := 2) (k := 1) rfl with
    ⟨_, _, _, h4⟩ | ⟨c, r, _, hc, hv, hnr, h1, h2⟩ | ⟨c, err, r, _, hc, _, href, _, _, _⟩
  · obtain ⟨c, hc⟩ := EngVm.histVm_compiles
    exact absurd hc (h4 c (by decide))
  · have hb := (EngVm.histVm_callable 1 c hc).1
    refine ⟨c, r, hc, hb, hv, ?_, h1, h2⟩
    obtain ⟨code, pool, hcomp⟩ := (refusal_exact histVm histVm_hyps.1 histVm_hyps.2.1 hc).2.2
      (histVm_small 1 c hc).1 (histVm_small 1 c hc).2
    exact ⟨code, pool, by simp only [CallableVm.ofCallable, hb, vmCodeOf, hcomp]⟩
  · obtain ⟨code, pool, hcomp⟩ := (refusal_exact histVm histVm_hyps.1 histVm_hyps.2.1 hc).2.2
      (histVm_small 1 c hc).1 (histVm_small 1 c hc).2
    have h2 := href.2
    rw [hcomp] at h2
    cases h2

end Yae.EngineVmProps

#print axioms Yae.EngineVmProps.engines_agree
#print axioms Yae.EngineVmProps.outputs_length
#print axioms Yae.EngineVmProps.engineVm_refines
#print axioms Yae.EngineVmProps.callableOK_of_history
#print axioms Yae.EngineVmProps.refusal_exact_callable
#print axioms Yae.EngineVmProps.refusal_exact
#print axioms Yae.EngineVmProps.engineVm_refines_small
#print axioms Yae.EngineVmProps.api_sound_vm
#print axioms Yae.EngineVmProps.histVm_hyps
#print axioms Yae.EngineVmProps.histVm_small
#print axioms Yae.EngineVmProps.histVm_same
#print axioms Yae.EngineVmProps.histVm_outputs
