/-
  Tie 1 (regenerated tables): what the code contains *now* (`Yae/Gen/*.lean`, rewritten from
  /repo on every run by harness/cmd/extract) equals the tables the model and its proofs use.
  A change of a built-in signature, of laziness, of registration order, of the reserved words or
  of a constant breaks one of these obligations.
-/
import Yae.Gen.Builtins
import Yae.Gen.Reserved
import Yae.Gen.Consts
import Yae.Model.Check
import Yae.Model.Builtins
namespace Yae.GenTie

theorem builtins_tie : Gen.builtinSigs = builtinSigs := by decide

theorem reserved_tie : Gen.reservedWords = reservedWords := by decide

theorem epsilon_tie : Gen.epsilonBits = epsilonBits := by decide

#print axioms builtins_tie
#print axioms reserved_tie
#print axioms epsilon_tie

end Yae.GenTie
