/-
  Tie 1 (regenerated tables): all parts.  See `Yae/Props/GenTie/*.lean`.
-/
import Yae.Props.GenTie.Builtins
import Yae.Props.GenTie.Vm
import Yae.Props.GenTie.Parser
import Yae.Props.GenTie.Sql
import Yae.Props.GenTie.Conv
import Yae.Props.GenTie.Lexer
