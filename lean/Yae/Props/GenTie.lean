/-
  Tie 1 (regenerated tables): what the code contains *now* (`Yae/Gen/*.lean`, rewritten from
  /repo on every run by harness/cmd/extract) equals the tables the model and its proofs use.
  A change of a built-in signature, of laziness, of registration order, of the reserved words or
  of a constant breaks one of these obligations.
-/
import Yae.Gen.Builtins
import Yae.Gen.Reserved
import Yae.Gen.Consts
import Yae.Model.Check
import Yae.Model.Builtins
import Yae.Model.Parser
namespace Yae.GenTie

theorem builtins_tie : Gen.builtinSigs = builtinSigs := by decide

theorem reserved_tie : Gen.reservedWords = reservedWords := by decide

theorem epsilon_tie : Gen.epsilonBits = epsilonBits := by decide

/-- the binding powers the grammar hard-wires (`oper.BP_COND`, `BP_CALL`, `BP_MEMBER`) and the
built-in operator table (`oper.BuiltIn()`: kind, float32 power, fixity, in declaration order) -/
theorem bp_tie : BP.ofF64Bits Gen.bpCond = some bpCond ∧ BP.ofF64Bits Gen.bpCall = some bpCall ∧
    BP.ofF64Bits Gen.bpMember = some bpMember := by decide

theorem operators_tie :
    Gen.builtinOperators.map (fun x => (x.1, BP.ofF64Bits x.2.1, x.2.2)) =
      builtinOps.map (fun o => (o.kind, some o.bp, o.fixity)) := by decide

#print axioms bp_tie
#print axioms operators_tie
#print axioms builtins_tie
#print axioms reserved_tie
#print axioms epsilon_tie

end Yae.GenTie
