/-
  Tie 1 (regenerated tables), part: built-in functions, reserved words, comparison tolerance.  `Yae/Gen/*.lean` is rewritten from /repo on every run by
  harness/cmd/extract; these obligations say that what the code contains *now* equals the tables
  the model and its proofs use.  Each property depends on the parts it uses (bin/checks_config.py).
-/
import Yae.Gen.Builtins
import Yae.Gen.Reserved
import Yae.Gen.Consts
import Yae.Model.Check
import Yae.Model.Builtins
namespace Yae.GenTie

theorem builtins_tie : Gen.builtinSigs = builtinSigs := by decide

theorem reserved_tie : Gen.reservedWords = reservedWords := by decide

theorem epsilon_tie : Gen.epsilonBits = epsilonBits := by decide

#print axioms builtins_tie
#print axioms reserved_tie
#print axioms epsilon_tie

end Yae.GenTie
