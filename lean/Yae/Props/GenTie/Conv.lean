/-
  Tie 1 (regenerated tables), part: the nesting limit of the reflection layer.  `Yae/Gen/*.lean` is rewritten from /repo on every run by
  harness/cmd/extract; these obligations say that what the code contains *now* equals the tables
  the model and its proofs use.  Each property depends on the parts it uses (bin/checks_config.py).
-/
import Yae.Gen.Consts
import Yae.Model.Conv
namespace Yae.GenTie

/-- `conv.maxLevel` (nesting bound of the reflection layer) -/
theorem conv_consts_tie : Gen.maxLevel = Yae.maxLevel := by decide

#print axioms conv_consts_tie

end Yae.GenTie
