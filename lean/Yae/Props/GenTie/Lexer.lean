/-
  Tie 1 (regenerated tables), part: the lexer's regular expressions and operator alphabet, read
  from the SOURCE of parser/lexer/factory.go, parser/lexer/rule.go and parser/oper/operator.go on
  every run (`Yae/Gen/LexPatterns.lean`).  The model implements each pattern by a hand-written
  recogniser (`Yae.Pat.run`); this obligation pins the pattern TEXT each recogniser stands for, in
  the order `newLexicon` registers the rules, so that any edit of a regular expression in the Go
  source breaks it.
-/
import Yae.Gen.LexPatterns
import Yae.Model.Lexer
import Yae.Spec.Regex
namespace Yae.GenTie

/-- the pattern each recogniser of the model stands for (token kind constant, Go pattern text) -/
def modelLexPatterns : List (Pat × String × String) := [
  (.floatA, "NUM", "(?:0|[1-9][0-9]*)(?:[.][0-9]+)+(?:[eE][-+]?[0-9]+)?"),
  (.floatB, "NUM", "(?:0|[1-9][0-9]*)(?:[.][0-9]+)?(?:[eE][-+]?[0-9]+)+"),
  (.bin, "NUM", "0b(?:0|1[0-1]*)"),
  (.hex, "NUM", "0x(?:0|[1-9a-fA-F][0-9a-fA-F]*)"),
  (.oct, "NUM", "0o(?:0|[1-7][0-7]*)"),
  (.int, "NUM", "(?:0|[1-9][0-9]*)"),
  (.str, "STR", "\"(?:[^\"\\\\]*|\\\\[\"\\\\trnbf\\/]|\\\\u[0-9a-fA-F]{4})*\""),
  (.raw, "STR", "`[^`]*`"),
  (.time, "TIME", "'[^`\"']*'"),
  (.sym, "SYM", "[a-zA-Z\\p{L}_][a-zA-Z0-9\\p{L}_]*")]

/-- the literal rules of `newLexicon`: same patterns, same kinds, same order -/
theorem lex_patterns_tie : Gen.lexPatterns = modelLexPatterns.map (·.2) := by decide

/-- the literal rules at the end of the model's lexicon are these ten recognisers in this order -/
theorem lex_rules_order :
    ((newLexicon []).drop 12).map (fun r => match r.m with | .regex p => some p | _ => none) =
      modelLexPatterns.map (fun x => some x.1) := by decide

/-- **the translator-style tie**: the pattern TEXT found in the Go source now is, character for
character, the printed form of the regular expression `reOf p` whose reference semantics the
recogniser `p.run` is proved equal to (`Yae.Pat.run_eq_matchLen`, `Yae.C09.literal_forms`) -/
theorem lex_regex_tie :
    Gen.lexPatterns.map (·.2) = modelLexPatterns.map (fun x => (reOf x.1).show) := by decide

/-- … likewise `keywordPostfix` and `idReg` (anchors written out) -/
theorem lex_aux_regex_tie :
    Gen.keywordPostfixPattern = "^" ++ reKeywordPostfix.show ∧
    Gen.identOpPattern = "^" ++ reIdent.show ++ "$" := by decide

/-- `keywordPostfix`, `idReg`, and the operator alphabet behind `oper.HasPrefix` -/
theorem lex_aux_tie :
    Gen.keywordPostfixPattern = "^[a-zA-Z\\d\\p{L}_]+" ∧
    Gen.identOpPattern = "^[a-zA-Z\\p{L}_][a-zA-Z0-9\\p{L}_]*$" ∧
    Gen.operatorAlphabet.toList = operChars := by decide

#print axioms lex_patterns_tie
#print axioms lex_rules_order
#print axioms lex_aux_tie
#print axioms lex_regex_tie
#print axioms lex_aux_regex_tie

end Yae.GenTie
