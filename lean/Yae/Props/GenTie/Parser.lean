/-
  Tie 1 (regenerated tables), part: built-in operator table and the grammar's fixed binding powers.  `Yae/Gen/*.lean` is rewritten from /repo on every run by
  harness/cmd/extract; these obligations say that what the code contains *now* equals the tables
  the model and its proofs use.  Each property depends on the parts it uses (bin/checks_config.py).
-/
import Yae.Gen.Consts
import Yae.Model.Parser
namespace Yae.GenTie

/-- the binding powers the grammar hard-wires (`oper.BP_COND`, `BP_CALL`, `BP_MEMBER`) and the
built-in operator table (`oper.BuiltIn()`: kind, float32 power, fixity, in declaration order) -/
theorem bp_tie : BP.ofF64Bits Gen.bpCond = some bpCond ∧ BP.ofF64Bits Gen.bpCall = some bpCall ∧
    BP.ofF64Bits Gen.bpMember = some bpMember := by decide

theorem operators_tie :
    Gen.builtinOperators.map (fun x => (x.1, BP.ofF64Bits x.2.1, x.2.2)) =
      builtinOps.map (fun o => (o.kind, some o.bp, o.fixity)) := by decide

#print axioms bp_tie
#print axioms operators_tie

end Yae.GenTie
