/-
  Tie 1 (regenerated tables), part: the SQL function table, its formatters and the precedence of the connectives.  `Yae/Gen/*.lean` is rewritten from /repo on every run by
  harness/cmd/extract; these obligations say that what the code contains *now* equals the tables
  the model and its proofs use.  Each property depends on the parts it uses (bin/checks_config.py).
-/
import Yae.Gen.Sql
import Yae.Model.Sql
namespace Yae.GenTie

/-- the model's SQL function table in the form the extractor prints `sql.BuiltIn()`: rendered
signature, the formatter applied to the placeholders `<0>`, `<1>`, …, precedence if logical -/
def modelSqlFuns : List (String × String × Option BP) :=
  Sql.sqlTable.map fun s =>
    let n := match s.ty with | .fn _ ps _ => ps.length | _ => 0
    (s.ty.render,
     match s.fmt.apply ((List.range n).map fun i => "<" ++ toString i ++ ">") with
     | .ok t => t
     | .error _ => "?",
     s.fmt.prec?.map BP.ofNat)

/-- `ext/sql`: the registered functions, what each formatter writes, and the precedence table of
the connectives that drives the parentheses (`logicalFunPrecTbl`) -/
theorem sql_table_tie :
    Gen.sqlFuns.map (fun x => (x.1, x.2.1, x.2.2.map BP.ofF64Bits)) =
      modelSqlFuns.map (fun x => (x.1, x.2.1, x.2.2.map some)) := by decide

#print axioms sql_table_tie

end Yae.GenTie
