/-
  Tie 1 (regenerated tables), part: opcodes, intrinsic tables, VM constants.  `Yae/Gen/*.lean` is rewritten from /repo on every run by
  harness/cmd/extract; these obligations say that what the code contains *now* equals the tables
  the model and its proofs use.  Each property depends on the parts it uses (bin/checks_config.py).
-/
import Yae.Gen.Opcodes
import Yae.Gen.Consts
import Yae.Model.Vm
namespace Yae.GenTie

/-- `vm/opcode.go`: the opcode enumeration in numeric order -/
theorem opcodes_tie : Gen.opcodeNames = Vm.Op.all.map Vm.Op.name := by decide

/-- the model's call-by-value intrinsic table as (rendered signature, opcode name) -/
def modelIntrinsicsByValue : List (String × String) :=
  builtins.filterMap fun b => (Vm.intrinsicByValue b.id).map fun o => (b.ty.render, o.name)

/-- `vm/intrinsic.go`: which built-in is compiled to which opcode (the Go side is a map, listed
sorted by signature; compared as sets of equal size) -/
theorem intrinsics_by_value_tie :
    Gen.intrinsicsByValue.length = modelIntrinsicsByValue.length ∧
    (Gen.intrinsicsByValue.all fun p => modelIntrinsicsByValue.contains p) = true ∧
    (modelIntrinsicsByValue.all fun p => Gen.intrinsicsByValue.contains p) = true := by decide

def modelIntrinsicsByNeed : List String :=
  (builtins.filter fun b => Vm.isCondIntrinsic b.id).map fun b => b.ty.render

/-- the built-ins compiled to jumps (`if`, `&&`, `||`, `!`) -/
theorem intrinsics_by_need_tie :
    Gen.intrinsicsByNeed.length = modelIntrinsicsByNeed.length ∧
    (Gen.intrinsicsByNeed.all fun p => modelIntrinsicsByNeed.contains p) = true ∧
    (modelIntrinsicsByNeed.all fun p => Gen.intrinsicsByNeed.contains p) = true := by decide

/-- the call-threaded loop's execution limit (finding D16 quotes it); the VM stack's initial size
and growth step (the generators place literals around these widths) -/
theorem vm_consts_tie : Gen.callThreadLimit = 1024 ∧ Gen.stackInit = 42 ∧ Gen.stackGrow = 500 := by
  decide

#print axioms opcodes_tie
#print axioms intrinsics_by_value_tie
#print axioms intrinsics_by_need_tie
#print axioms vm_consts_tie

end Yae.GenTie
