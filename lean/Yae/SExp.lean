/-
  S-expressions for the line protocol (DESIGN Appendix B).
  Atoms are runs of non-space, non-paren characters.  Strings travel as `$` followed by
  the hex of their UTF-8 bytes, numbers as `#` followed by the 16 hex digits of the binary64
  bit pattern, so no escaping is ever needed.
-/
namespace Yae

inductive SExp where
  | atom (s : String)
  | list (xs : List SExp)
  deriving Inhabited, Repr

namespace SExp

partial def toStr : SExp → String
  | .atom s => s
  | .list xs => "(" ++ " ".intercalate (xs.map toStr) ++ ")"

instance : ToString SExp := ⟨toStr⟩

/-- Tokeniser + recursive-descent reader. Returns `none` on malformed input. -/
partial def parseList (cs : List Char) (acc : List SExp) : Option (List SExp × List Char) :=
  match cs with
  | [] => some (acc.reverse, [])
  | c :: rest =>
    if c == ' ' || c == '\t' || c == '\n' || c == '\r' then parseList rest acc
    else if c == ')' then some (acc.reverse, cs)
    else if c == '(' then
      match parseList rest [] with
      | some (xs, ')' :: rest') => parseList rest' (SExp.list xs :: acc)
      | _ => none
    else
      let (a, rest') := cs.span (fun c => !(c == ' ' || c == '\t' || c == '\n' || c == '\r' || c == '(' || c == ')'))
      parseList rest' (SExp.atom (String.ofList a) :: acc)

def parse (s : String) : Option SExp :=
  match parseList s.toList [] with
  | some ([x], []) => some x
  | _ => none

def hexDigit (n : Nat) : Char :=
  if n < 10 then Char.ofNat (48 + n) else Char.ofNat (87 + n)

def hexVal (c : Char) : Option Nat :=
  if '0' ≤ c && c ≤ '9' then some (c.toNat - 48)
  else if 'a' ≤ c && c ≤ 'f' then some (c.toNat - 87)
  else if 'A' ≤ c && c ≤ 'F' then some (c.toNat - 55)
  else none

def hexOfBytes (bs : List UInt8) : String :=
  String.ofList (bs.flatMap fun b => [hexDigit (b.toNat / 16), hexDigit (b.toNat % 16)])

def bytesOfHex : List Char → Option (List UInt8)
  | [] => some []
  | a :: b :: rest => do
      let x ← hexVal a
      let y ← hexVal b
      let r ← bytesOfHex rest
      pure (UInt8.ofNat (x * 16 + y) :: r)
  | _ => none

def encStr (s : String) : SExp := .atom ("$" ++ hexOfBytes s.toUTF8.toList)

def decStrAtom (a : String) : Option String :=
  match a.toList with
  | '$' :: hs => do
      let bs ← bytesOfHex hs
      String.fromUTF8? (ByteArray.mk bs.toArray)
  | _ => none

def decStr : SExp → Option String
  | .atom a => decStrAtom a
  | _ => none

def hex64 (n : Nat) : String :=
  String.ofList ((List.range 16).map fun i => hexDigit ((n >>> (4 * (15 - i))) % 16))

def natOfHex (cs : List Char) : Option Nat :=
  cs.foldlM (fun acc c => do let v ← hexVal c; pure (acc * 16 + v)) 0

def encBits (bits : UInt64) : SExp := .atom ("#" ++ hex64 bits.toNat)

def decBits : SExp → Option UInt64
  | .atom a =>
    match a.toList with
    | '#' :: hs => if hs.length == 16 then (natOfHex hs).map UInt64.ofNat else none
    | _ => none
  | _ => none

def encNat (n : Nat) : SExp := .atom (toString n)
def encInt (n : Int) : SExp := .atom (toString n)

def decNat : SExp → Option Nat
  | .atom a => a.toNat?
  | _ => none

def decInt : SExp → Option Int
  | .atom a => a.toInt?
  | _ => none

def decBool : SExp → Option Bool
  | .atom "true" => some true
  | .atom "false" => some false
  | _ => none

def encBool (b : Bool) : SExp := .atom (if b then "true" else "false")

end SExp
end Yae
