/-
  The proleptic Gregorian calendar, written down naively (C04, "absolute date-time forms").

  The model has one calendar function, `civilFromDays` (`Yae/Model/Val.lean`, Howard Hinnant's
  closed formula: day number ↦ year, month, day), used by `TimeV.render`.  It has no function in
  the other direction: time literals and `strtotime` go through a table of the real
  `timelib.Strtotime` (`Externs.strtotime`).  What an "absolute date-time form" MEANS is therefore
  defined here, by counting days:

    * `isLeap y`          the Gregorian leap-year rule;
    * `daysInMonth y m`   28/29/30/31;
    * `daysBeforeYear y`  the number of days of the years `0 .. y-1` (a sum, by recursion);
    * `daysBeforeMonth y m` the number of days of the months `1 .. m-1` of year `y` (a sum);
    * `dayNumber y m d`   days from 1970-01-01 to the date (negative before);
    * `epochOf y m d hh mm ss` Unix seconds of that date-time in UTC.

  Years are natural numbers: year 0 is 1 BC, the first year the model is meant for.  Nothing is
  proved here; `Yae/Proofs/C04Time.lean` proves that `civilFromDays` inverts `dayNumber` from
  0000-03-01 on.
-/
namespace Yae.Civil

/-- divisible by 4, except the centuries not divisible by 400 -/
def isLeap (y : Nat) : Bool := y % 4 == 0 && (y % 100 != 0 || y % 400 == 0)

def daysInMonth (y m : Nat) : Nat :=
  if m = 2 then (if isLeap y then 29 else 28)
  else if m = 4 ∨ m = 6 ∨ m = 9 ∨ m = 11 then 30 else 31

def daysInYear (y : Nat) : Nat := if isLeap y then 366 else 365

/-- `y-m-d` is a date of the calendar -/
def ValidDate (y m d : Nat) : Prop := 1 ≤ m ∧ m ≤ 12 ∧ 1 ≤ d ∧ d ≤ daysInMonth y m

instance (y m d : Nat) : Decidable (ValidDate y m d) := by unfold ValidDate; exact inferInstance

/-- days in the years `0, …, y-1` -/
def daysBeforeYear : Nat → Nat
  | 0 => 0
  | y + 1 => daysBeforeYear y + daysInYear y

/-- days in the months `1, …, m-1` of year `y` -/
def daysBeforeMonth (y : Nat) : Nat → Nat
  | 0 => 0
  | 1 => 0
  | m + 1 => daysBeforeMonth y m + daysInMonth y m

/-- days from 0000-01-01 to 1970-01-01 -/
def epochDay : Nat := 719528

/-- days from 1970-01-01 to `y-m-d` -/
def dayNumber (y m d : Nat) : Int :=
  ((daysBeforeYear y + daysBeforeMonth y m + d : Nat) : Int) - 1 - epochDay

/-- Unix time of `y-m-d hh:mm:ss` UTC -/
def epochOf (y m d hh mm ss : Nat) : Int :=
  dayNumber y m d * 86400 + ((hh * 3600 + mm * 60 + ss : Nat) : Int)

/-- the date is not before 0000-03-01 (the first day `civilFromDays` is right for) -/
def FromMarch0 (y m : Nat) : Prop := 0 < y ∨ 3 ≤ m

instance (y m : Nat) : Decidable (FromMarch0 y m) := by unfold FromMarch0; exact inferInstance

end Yae.Civil
