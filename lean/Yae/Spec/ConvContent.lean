/-
  Definitions for C15, "contents equal the original".

  `Content` is a common abstract tree for what a piece of host data IS and for what a yae value
  HOLDS: numbers (doubles), strings, booleans, instants, sequences, keyed entries, named fields,
  and the two states of an optional.  Types, Go kinds, pointers and interfaces do not occur in it.

  * `GoVal.content g` — what the Go value is (`none`: it has no content — nil outside an optional
    position, an unsupported kind).  Written by looking at the Go value only:
      - sized integers as the double `float64(int64)` / `float64(uint64)` gives (`intToFloat`,
        `natToFloat`: the very functions of the model, so no second opinion on rounding here);
      - pointers and interfaces are transparent;
      - a nil slice / nil map is the empty sequence / the empty entry list;
      - a map entry is listed under the yae KEY of its Go key (`Content.key?`, the text `Key()`
        prints: that text is all a yae map keeps of a key), in the order the `GoVal` lists them;
      - a struct field is listed under its TAG name (`parseTag`), in declaration order; a nil
        field is `absent` (tagged `maybe` or not — that is what `conv` does), a non-nil field
        tagged `maybe` is `present c`.  Unexported fields are NOT skipped (neither does `conv`).
  * `Val.content v` — what the yae value holds: list members in order, map entries in the order
    of the value's entry list, object fields under the names of the object's own type.
  * `Content.Equiv` (`≈`) — equality up to the order of map entries, at any depth.
  * `Content.distinctKeys` — in every entry list inside, the keys are pairwise distinct.
  * `Content.norm` — what inserting the entries one by one into a yae map (`m.V[key] = v`) makes
    of a content tree: of several entries with one key the FIRST position and the LAST value stay.
-/
import Yae.Model.Conv
namespace Yae

mutual
inductive Content where
  | num (x : Float)
  | str (s : String)
  | bool (b : Bool)
  | time (t : TimeV)
  | seq (xs : ContentList)
  /-- keyed entries; the key is the yae key (kind, text) -/
  | entries (es : ContentEntries)
  | fields (fs : ContentFields)
  | absent
  | present (c : Content)
  /-- a yae value without host-data counterpart (function values, a Go nil `*Val`);
  `GoVal.content` never produces it -/
  | other
inductive ContentList where
  | nil
  | cons (c : Content) (cs : ContentList)
inductive ContentEntries where
  | nil
  | cons (tag : Kind) (key : String) (c : Content) (es : ContentEntries)
inductive ContentFields where
  | nil
  | cons (name : String) (c : Content) (fs : ContentFields)
end

instance : Inhabited Content := ⟨.other⟩

namespace ContentList
def toList : ContentList → List Content
  | .nil => []
  | .cons c cs => c :: toList cs
end ContentList

namespace ContentEntries
def toList : ContentEntries → List ((Kind × String) × Content)
  | .nil => []
  | .cons t k c es => ((t, k), c) :: toList es
def hasKey : ContentEntries → Kind → String → Bool
  | .nil, _, _ => false
  | .cons t k _ es, t', k' => (t == t' && k == k') || hasKey es t' k'
/-- the keys are pairwise distinct -/
def keysNodup : ContentEntries → Bool
  | .nil => true
  | .cons t k _ es => !hasKey es t k && keysNodup es
/-- `m.V[key] = c` on an association list (same as `EntryList.insert`) -/
def insert : ContentEntries → Kind → String → Content → ContentEntries
  | .nil, t, k, c => .cons t k c .nil
  | .cons t k c es, t', k', c' =>
    if t = t' ∧ k = k' then .cons t k c' es else .cons t k c (insert es t' k' c')
end ContentEntries

namespace ContentFields
def toList : ContentFields → List (String × Content)
  | .nil => []
  | .cons n c fs => (n, c) :: toList fs
end ContentFields

/-- the yae key of a scalar: what `(*Val).Key()` gives for the value with that content -/
def Content.key? : Content → Option (Kind × String)
  | .bool b => some (.bool, if b then "true" else "false")
  | .num x => some (.num, Num.renderNum x)
  | .str s => some (.str, Num.quote s)
  | .time t => some (.time, Num.quote t.render)
  | _ => none

/-! ### what a Go value is -/

mutual
def GoVal.content : GoVal → Option Content
  | .invalid => none
  | .bool b => some (.bool b)
  | .int _ i => some (.num (intToFloat i))
  | .uint _ n => some (.num (natToFloat n))
  | .float _ x => some (.num x)
  | .string s => some (.str s)
  | .time t => some (.time t)
  | .ptrNil _ => none
  | .ptr v => v.content
  | .ifaceNil => none
  | .iface v => v.content
  | .sliceNil _ => some (.seq .nil)
  | .slice _ vs => (GoValList.content vs).map .seq
  | .array _ vs => (GoValList.content vs).map .seq
  | .mapNil _ _ => some (.entries .nil)
  | .map _ _ es => (GoEntryList.content es).map .entries
  | .struct fs vs => (GoFieldList.content fs vs).map .fields
  | .unsupported _ _ => none
/-- the members, in order -/
def GoValList.content : GoValList → Option ContentList
  | .nil => some .nil
  | .cons v vs =>
    match v.content, GoValList.content vs with
    | some c, some cs => some (.cons c cs)
    | _, _ => none
/-- the entries, each under the yae key of its Go key, in the listed order -/
def GoEntryList.content : GoEntryList → Option ContentEntries
  | .nil => some .nil
  | .cons k v es =>
    match (k.content).bind Content.key?, v.content, GoEntryList.content es with
    | some (tag, key), some c, some r => some (.cons tag key c r)
    | _, _, _ => none
/-- the fields, each under its tag name, in declaration order (a `GoVal.struct` with more or
fewer values than fields is not something `reflect` presents; the common prefix is taken, as the
model's `valOfFields` does) -/
def GoFieldList.content : GoFieldList → GoValList → Option ContentFields
  | .cons name tag _ _ frest, .cons x xs =>
    match (if x.isNil then some Content.absent
           else x.content.map fun c => if (parseTag name tag).2 then Content.present c else c),
          GoFieldList.content frest xs with
    | some c, some r => some (.cons (parseTag name tag).1 c r)
    | _, _ => none
  | _, _ => some .nil
end

/-! ### what a yae value holds -/

mutual
def Val.content : Val → Content
  | .num x => .num x
  | .str s => .str s
  | .bool b => .bool b
  | .time t => .time t
  | .list _ vs => .seq (ValList.content vs)
  | .map _ es => .entries (EntryList.content es)
  | .obj ty vs =>
    match ty with
    | .obj fs => .fields (ValList.fieldContent fs vs)
    | _ => .other
  | .fn _ _ _ => .other
  | .just _ v => .present v.content
  | .nothing _ => .absent
  | .nil => .other
def ValList.content : ValList → ContentList
  | .nil => .nil
  | .cons v vs => .cons v.content (ValList.content vs)
def EntryList.content : EntryList → ContentEntries
  | .nil => .nil
  | .cons t k v es => .cons t k v.content (EntryList.content es)
/-- the i-th value under the name of the i-th field of the object's own type -/
def ValList.fieldContent : FieldList → ValList → ContentFields
  | .cons n _ fs, .cons v vs => .cons n v.content (ValList.fieldContent fs vs)
  | _, _ => .nil
end

/-! ### equality up to the order of map entries -/

mutual
/-- `c ≈ d`: the same tree up to the order in which entry lists enumerate their entries
(sequences and field lists keep their order). -/
inductive Content.Equiv : Content → Content → Prop
  | num (x : Float) : Content.Equiv (.num x) (.num x)
  | str (s : String) : Content.Equiv (.str s) (.str s)
  | bool (b : Bool) : Content.Equiv (.bool b) (.bool b)
  | time (t : TimeV) : Content.Equiv (.time t) (.time t)
  | absent : Content.Equiv .absent .absent
  | other : Content.Equiv .other .other
  | present {c d} : Content.Equiv c d → Content.Equiv (.present c) (.present d)
  | seq {xs ys} : ContentList.Equiv xs ys → Content.Equiv (.seq xs) (.seq ys)
  | entries {es fs} : ContentEntries.Equiv es fs → Content.Equiv (.entries es) (.entries fs)
  | fields {fs gs} : ContentFields.Equiv fs gs → Content.Equiv (.fields fs) (.fields gs)
/-- member by member, in order -/
inductive ContentList.Equiv : ContentList → ContentList → Prop
  | nil : ContentList.Equiv .nil .nil
  | cons {c d cs ds} : Content.Equiv c d → ContentList.Equiv cs ds →
      ContentList.Equiv (.cons c cs) (.cons d ds)
/-- a permutation (generated like `List.Perm`) with `≈` contents under equal keys -/
inductive ContentEntries.Equiv : ContentEntries → ContentEntries → Prop
  | nil : ContentEntries.Equiv .nil .nil
  | cons {t k c d es fs} : Content.Equiv c d → ContentEntries.Equiv es fs →
      ContentEntries.Equiv (.cons t k c es) (.cons t k d fs)
  | swap {t k c t' k' c' es} :
      ContentEntries.Equiv (.cons t k c (.cons t' k' c' es)) (.cons t' k' c' (.cons t k c es))
  | trans {es fs gs} : ContentEntries.Equiv es fs → ContentEntries.Equiv fs gs →
      ContentEntries.Equiv es gs
/-- field by field, same names, in order -/
inductive ContentFields.Equiv : ContentFields → ContentFields → Prop
  | nil : ContentFields.Equiv .nil .nil
  | cons {n c d fs gs} : Content.Equiv c d → ContentFields.Equiv fs gs →
      ContentFields.Equiv (.cons n c fs) (.cons n d gs)
end

/-- `c ≈ d` is `Content.Equiv c d` -/
instance : HasEquiv Content := ⟨Content.Equiv⟩

/-! ### distinct keys; insertion one by one -/

mutual
/-- in every entry list inside, the keys are pairwise distinct -/
def Content.distinctKeys : Content → Bool
  | .seq xs => ContentList.distinctKeys xs
  | .entries es => es.keysNodup && ContentEntries.distinctKeys es
  | .fields fs => ContentFields.distinctKeys fs
  | .present c => c.distinctKeys
  | _ => true
def ContentList.distinctKeys : ContentList → Bool
  | .nil => true
  | .cons c cs => c.distinctKeys && ContentList.distinctKeys cs
def ContentEntries.distinctKeys : ContentEntries → Bool
  | .nil => true
  | .cons _ _ c es => c.distinctKeys && ContentEntries.distinctKeys es
def ContentFields.distinctKeys : ContentFields → Bool
  | .nil => true
  | .cons _ c fs => c.distinctKeys && ContentFields.distinctKeys fs
end

mutual
/-- every entry list inside replaced by the result of inserting its entries one by one, in the
listed order, into an empty yae map: of the entries with one key, the first one's position and
the last one's content remain -/
def Content.norm : Content → Content
  | .seq xs => .seq (ContentList.norm xs)
  | .entries es => .entries (ContentEntries.normInto es .nil)
  | .fields fs => .fields (ContentFields.norm fs)
  | .present c => .present c.norm
  | c => c
def ContentList.norm : ContentList → ContentList
  | .nil => .nil
  | .cons c cs => .cons c.norm (ContentList.norm cs)
/-- insert the (normalised) entries one by one into `acc` -/
def ContentEntries.normInto : ContentEntries → ContentEntries → ContentEntries
  | .nil, acc => acc
  | .cons t k c es, acc => ContentEntries.normInto es (acc.insert t k c.norm)
def ContentFields.norm : ContentFields → ContentFields
  | .nil => .nil
  | .cons n c fs => .cons n c.norm (ContentFields.norm fs)
end

/-! ### environments -/

/-- the bindings a string-keyed Go map offers: each key's text with the content of its value -/
def GoEntryList.envContent : GoEntryList → Option (List (String × Content))
  | .nil => some []
  | .cons k v es =>
    match v.content, GoEntryList.envContent es with
    | some c, some r => some ((keyName k, c) :: r)
    | _, _ => none

/-- the bindings a Go value offers as an environment: the entries of a string-keyed map (also
behind pointers / interfaces), else the fields of a struct under their tag names; nothing for the
untyped nil -/
def GoVal.envContent (g : GoVal) : Option (List (String × Content)) :=
  match g with
  | .invalid => some []
  | g =>
    match reflectMap g with
    | .strMap es => es.envContent
    | _ =>
      match g.content with
      | some (.fields fs) => some fs.toList
      | _ => none

end Yae
