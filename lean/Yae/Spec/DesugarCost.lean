/-
  A cost semantics for the desugarer model (C12), by construction as in
  `Yae/Spec/ParseCost.lean`: `desugarC` / `desugarListC` / `desugarPairsC` / `desugarFieldsC` are
  literal copies of the four functions of `Yae/Model/Desugar.lean` (same equations, same order)
  that return the result together with a counter.

  COST UNIT: one call of `desugar` (one visited node).  The three list functions are the `for`
  loops of the Go code; a round of them does nothing but the call of `desugar` on the element(s)
  and one `cons`, and is not counted.

  `Expr.nodes` is the number of nodes of a tree.  Erasure and the bound
  (`calls ≤ nodes`) are in `Yae/Proofs/DesugarCost.lean`.
-/
import Yae.Model.Desugar
namespace Yae

mutual
/-- number of nodes -/
def Expr.nodes : Expr → Nat
  | .list _ es _ => nodesList es + 1
  | .map _ ps _ => nodesPairs ps + 1
  | .obj _ fs _ => nodesFields fs + 1
  | .call _ _ c as _ _ _ => c.nodes + nodesList as + 1
  | .subscript _ _ v i _ => v.nodes + i.nodes + 1
  | .member _ _ o _ _ _ _ => o.nodes + 1
  | .unary _ _ _ e _ => e.nodes + 1
  | .binary _ _ _ _ l r => l.nodes + r.nodes + 1
  | .ternary _ _ _ l m r => l.nodes + m.nodes + r.nodes + 1
  | .group _ e => e.nodes + 1
  | _ => 1
def nodesList : ExprList → Nat
  | .nil => 0
  | .cons e es => e.nodes + nodesList es
def nodesPairs : PairList → Nat
  | .nil => 0
  | .cons k v ps => k.nodes + v.nodes + nodesPairs ps
def nodesFields : FieldEList → Nat
  | .nil => 0
  | .cons _ e fs => e.nodes + nodesFields fs
end

mutual
/-- `desugar` with the number of calls of `desugar`. -/
def desugarC : Expr → Expr × Nat
  | .str p v => (.str p v, 1)
  | .num p v => (.num p v, 1)
  | .time p v => (.time p v, 1)
  | .bool p v => (.bool p v, 1)
  | .ident p n => (.ident p n, 1)
  | .list p es _ =>
    let r := desugarListC es
    (.list p r.1 none, r.2 + 1)
  | .map p ps _ =>
    let r := desugarPairsC ps
    (.map p r.1 none, r.2 + 1)
  | .obj p fs _ =>
    let r := desugarFieldsC fs
    (.obj p r.1 none, r.2 + 1)
  | .unary p name np e _ =>
    let r := desugarC e
    (.call p np.col (.ident np name) (.cons r.1 .nil) none "" (-1), r.2 + 1)
  | .binary p name np _ l r =>
    let a := desugarC l
    let b := desugarC r
    (.call p np.col (.ident np name) (.cons a.1 (.cons b.1 .nil)) none "" (-1), a.2 + b.2 + 1)
  | .ternary p _ np l m r =>
    let a := desugarC l
    let b := desugarC m
    let c := desugarC r
    (.call p np.col (.ident np funIF) (.cons a.1 (.cons b.1 (.cons c.1 .nil))) none "" (-1),
      a.2 + b.2 + c.2 + 1)
  | .call p col (.member _ _ o f fp _ _) args _ _ _ =>
    let a := desugarC o
    let b := desugarListC args
    (.call p col (.ident fp f) (.cons a.1 b.1) none "" (-1), a.2 + b.2 + 1)
  | .call p col callee args _ _ _ =>
    let a := desugarC callee
    let b := desugarListC args
    (.call p col a.1 b.1 none "" (-1), a.2 + b.2 + 1)
  | .subscript p col v i _ =>
    let a := desugarC v
    let b := desugarC i
    (.subscript p col a.1 b.1 none, a.2 + b.2 + 1)
  | .member p col o f fp _ _ =>
    let a := desugarC o
    (.member p col a.1 f fp none (-1), a.2 + 1)
  | .group _ e =>
    let a := desugarC e
    (a.1, a.2 + 1)
def desugarListC : ExprList → ExprList × Nat
  | .nil => (.nil, 0)
  | .cons e es =>
    let a := desugarC e
    let b := desugarListC es
    (.cons a.1 b.1, a.2 + b.2)
def desugarPairsC : PairList → PairList × Nat
  | .nil => (.nil, 0)
  | .cons k v ps =>
    let a := desugarC k
    let b := desugarC v
    let c := desugarPairsC ps
    (.cons a.1 b.1 c.1, a.2 + b.2 + c.2)
def desugarFieldsC : FieldEList → FieldEList × Nat
  | .nil => (.nil, 0)
  | .cons n e fs =>
    let a := desugarC e
    let b := desugarFieldsC fs
    (.cons n a.1 b.1, a.2 + b.2)
end

end Yae
