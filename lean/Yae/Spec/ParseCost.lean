/-
  A cost semantics for the parser model (C12: "compile time grows at most polynomially with the
  length of the source").

  The model (`Yae/Model/Parser.lean`) has no notion of work.  This file gives it one BY
  CONSTRUCTION: `pExprC`, `pInfixC`, `pCallC`, `pArgsC`, `pListC`, `pMapC`, `pObjC` are literal
  copies of the seven mutually recursive parser functions, same arguments, same case structure,
  same order of the tests, that return a pair: the result of the model function and a counter.

  COST UNIT: one call of any of the seven functions (`expr`, one round of `parseInfix`,
  `parseCall`, one round of each of the four loops).  A call counts `1` for itself (also a call
  that only finds its fuel exhausted, or fails at once) plus the counts of the calls it makes.
  Between two calls a function does a bounded amount of other work: at most two table lookups
  (`tableLookup`: linear in the size of the operator table), at most four token inspections
  (`peek` / `mustEat`), one `Pos.range`, one `infixNCheck` (looks at the roots of the two
  operands only), one literal conversion (`Num.parseNumLit`, `Num.unquote`, `timeLit`: one pass
  over the lexeme of the token just eaten), and the final `reverse` / `ofList` of an
  accumulator whose length is at most the number of rounds of the loop.  None of these is
  counted.

  What ties the copies to the model is ERASURE (`Yae/Proofs/ParseCostErase.lean`): the first
  component of `pXC env f …` is `pX env f …`, for all arguments; so the instrumented function
  is the model function plus a counter and nothing else.  The bound is in
  `Yae/Proofs/ParseCost.lean`, the statements in `Yae/Props/C12.lean`.
-/
import Yae.Model.Parser
namespace Yae

/-- a result of the model together with the number of calls made -/
abbrev PResC (α : Type) := PRes α × Nat

mutual

/-- `pExpr` with the call count. -/
def pExprC (env : PEnv) : Nat → BP → Nat → PResC Expr
  | 0, _, _ => (.error .fuel, 1)
  | f + 1, rbp, i =>
    let t := env.peek i
    let i := env.adv i
    match tableLookup t.kind env.g.prefixs with
    | none => (.error .syntax, 1)
    | some (bp, nud) =>
      let left : PResC Expr :=
        match nud with
        | .ident => (.ok (.ident t.pos t.lexeme, i), 0)
        | .true_ => (.ok (.bool t.pos true, i), 0)
        | .false_ => (.ok (.bool t.pos false, i), 0)
        | .num =>
          match Num.parseNumLit t.lexeme with
          | some v => (.ok (.num t.pos v, i), 0)
          | none => (.error .syntax, 0)
        | .str =>
          match Num.unquote t.lexeme with
          | some v => (.ok (.str t.pos v, i), 0)
          | none => (.error .syntax, 0)
        | .time =>
          match env.timeLit t with
          | .ok e => (.ok (e, i), 0)
          | .error e => (.error e, 0)
        | .group =>
          match pExprC env f 0 i with
          | (.error e, c) => (.error e, c)
          | (.ok (e, i), c) =>
            match env.mustEat ")" i with
            | .error e => (.error e, c)
            | .ok (rp, i) =>
              match Pos.range t.pos rp.pos with
              | .error e => (.error e, c)
              | .ok rg => (.ok (.group rg e, i), c)
        | .unaryPrefix =>
          match pExprC env f bp i with
          | (.error e, c) => (.error e, c)
          | (.ok (e, i), c) =>
            match Pos.range t.pos e.pos with
            | .error e => (.error e, c)
            | .ok rg => (.ok (.unary rg t.lexeme t.pos e true, i), c)
        | .listMap =>
          if (env.peek i).kind == ":" then
            match env.mustEat "]" (env.adv i) with
            | .error e => (.error e, 0)
            | .ok (rb, i) =>
              match Pos.range t.pos rb.pos with
              | .error e => (.error e, 0)
              | .ok rg => (.ok (.map rg .nil none, i), 0)
          else
            if (env.peek i).kind == "]" then
              match env.mustEat "]" i with
              | .error e => (.error e, 0)
              | .ok (rb, i) =>
                match Pos.range t.pos rb.pos with
                | .error e => (.error e, 0)
                | .ok rg => (.ok (.list rg .nil none, i), 0)
            else
              match pExprC env f 0 i with
              | (.error e, c) => (.error e, c)
              | (.ok (fst, i), c) =>
                if (env.peek i).kind == ":" then
                  match pExprC env f 0 (env.adv i) with
                  | (.error e, c₂) => (.error e, c + c₂)
                  | (.ok (v, i), c₂) =>
                    let rest : PResC (List (Expr × Expr)) :=
                      if (env.peek i).kind == "," then pMapC env f [(fst, v)] (env.adv i)
                      else (.ok ([(fst, v)], i), 0)
                    match rest with
                    | (.error e, c₃) => (.error e, c + c₂ + c₃)
                    | (.ok (ps, i), c₃) =>
                      match env.mustEat "]" i with
                      | .error e => (.error e, c + c₂ + c₃)
                      | .ok (rb, i) =>
                        match Pos.range t.pos rb.pos with
                        | .error e => (.error e, c + c₂ + c₃)
                        | .ok rg =>
                          (.ok (.map rg (PairList.ofList ps.reverse) none, i), c + c₂ + c₃)
                else
                  let rest : PResC (List Expr) :=
                    if (env.peek i).kind == "," then pListC env f [fst] (env.adv i)
                    else (.ok ([fst], i), 0)
                  match rest with
                  | (.error e, c₂) => (.error e, c + c₂)
                  | (.ok (els, i), c₂) =>
                    match env.mustEat "]" i with
                    | .error e => (.error e, c + c₂)
                    | .ok (rb, i) =>
                      match Pos.range t.pos rb.pos with
                      | .error e => (.error e, c + c₂)
                      | .ok rg => (.ok (.list rg (ExprList.ofList els.reverse) none, i), c + c₂)
        | .obj =>
          match pObjC env f [] i with
          | (.error e, c) => (.error e, c)
          | (.ok (fs, i), c) =>
            match env.mustEat "}" i with
            | .error e => (.error e, c)
            | .ok (rb, i) =>
              match Pos.range t.pos rb.pos with
              | .error e => (.error e, c)
              | .ok rg => (.ok (.obj rg (FieldEList.ofList fs.reverse) none, i), c)
      match left with
      | (.error e, c) => (.error e, c + 1)
      | (.ok (left, i), c) =>
        let r := pInfixC env f left rbp i
        (r.1, c + r.2 + 1)
termination_by structural fuel => fuel

/-- `pInfix` with the call count (one call per round of the `for`). -/
def pInfixC (env : PEnv) : Nat → Expr → BP → Nat → PResC Expr
  | 0, _, _, _ => (.error .fuel, 1)
  | f + 1, left, rbp, i =>
    let t := env.peek i
    if env.g.infixLbp t.kind > rbp then
      let i := env.adv i
      match tableLookup t.kind env.g.infixs with
      | none => (.error .syntax, 1)
      | some (bp, led) =>
        let res : PResC Expr :=
          match led with
          | .binaryL =>
            match pExprC env f bp i with
            | (.error e, c) => (.error e, c)
            | (.ok (rhs, i), c) =>
              match Pos.range left.pos rhs.pos with
              | .error e => (.error e, c)
              | .ok rg => (.ok (.binary rg t.lexeme t.pos fixInfixL left rhs, i), c)
          | .binaryR =>
            match pExprC env f (bpPred bp) i with
            | (.error e, c) => (.error e, c)
            | (.ok (rhs, i), c) =>
              match Pos.range left.pos rhs.pos with
              | .error e => (.error e, c)
              | .ok rg => (.ok (.binary rg t.lexeme t.pos fixInfixR left rhs, i), c)
          | .binaryN =>
            match pExprC env f bp i with
            | (.error e, c) => (.error e, c)
            | (.ok (rhs, i), c) =>
              match Pos.range left.pos rhs.pos with
              | .error e => (.error e, c)
              | .ok rg => (.ok (.binary rg t.lexeme t.pos fixInfixN left rhs, i), c)
          | .unaryPostfix =>
            match Pos.range left.pos t.pos with
            | .error e => (.error e, 0)
            | .ok rg => (.ok (.unary rg t.lexeme t.pos left false, i), 0)
          | .question =>
            match pExprC env f 0 i with
            | (.error e, c) => (.error e, c)
            | (.ok (m, i), c) =>
              match env.mustEat ":" i with
              | .error e => (.error e, c)
              | .ok (_, i) =>
                match pExprC env f (bpPred bp) i with
                | (.error e, c₂) => (.error e, c + c₂)
                | (.ok (r, i), c₂) =>
                  match Pos.range left.pos r.pos with
                  | .error e => (.error e, c + c₂)
                  | .ok rg => (.ok (.ternary rg t.lexeme t.pos left m r, i), c + c₂)
          | .call => pCallC env f left t i
          | .dot =>
            let name := env.peek i
            let i := env.adv i
            match Pos.range left.pos name.pos with
            | .error e => (.error e, 0)
            | .ok rg =>
              let mem := Expr.member rg t.pos.col left name.lexeme name.pos none (-1)
              let lp := env.peek i
              if lp.kind == "(" then pCallC env f mem lp (env.adv i)
              else (.ok (mem, i), 0)
          | .subscript =>
            match pExprC env f 0 i with
            | (.error e, c) => (.error e, c)
            | (.ok (ix, i), c) =>
              match env.mustEat "]" i with
              | .error e => (.error e, c)
              | .ok (rb, i) =>
                match Pos.range left.pos rb.pos with
                | .error e => (.error e, c)
                | .ok rg => (.ok (.subscript rg t.pos.col left ix none, i), c)
        match res with
        | (.error e, c) => (.error e, c + 1)
        | (.ok (e, i), c) =>
          match infixNCheck e with
          | .error e => (.error e, c + 1)
          | .ok e =>
            let r := pInfixC env f e rbp i
            (r.1, c + r.2 + 1)
    else
      match infixNCheck left with
      | .error e => (.error e, 1)
      | .ok e => (.ok (e, i), 1)
termination_by structural fuel => fuel

/-- `pCall` with the call count. -/
def pCallC (env : PEnv) : Nat → Expr → Token → Nat → PResC Expr
  | 0, _, _, _ => (.error .fuel, 1)
  | f + 1, callee, t, i =>
    let args : PResC (List Expr) :=
      if (env.peek i).kind == ")" then (.ok ([], i), 0)
      else pArgsC env f [] i
    match args with
    | (.error e, c) => (.error e, c + 1)
    | (.ok (as, i), c) =>
      match env.mustEat ")" i with
      | .error e => (.error e, c + 1)
      | .ok (rp, i) =>
        match Pos.range callee.pos rp.pos with
        | .error e => (.error e, c + 1)
        | .ok rg =>
          (.ok (.call rg t.pos.col callee (ExprList.ofList as.reverse) none "" (-1), i), c + 1)
termination_by structural fuel => fuel

/-- `pArgs` with the call count. -/
def pArgsC (env : PEnv) : Nat → List Expr → Nat → PResC (List Expr)
  | 0, _, _ => (.error .fuel, 1)
  | f + 1, acc, i =>
    match pExprC env f 0 i with
    | (.error e, c) => (.error e, c + 1)
    | (.ok (a, i), c) =>
      if (env.peek i).kind == "," then
        let r := pArgsC env f (a :: acc) (env.adv i)
        (r.1, c + r.2 + 1)
      else (.ok (a :: acc, i), c + 1)
termination_by structural fuel => fuel

/-- `pList` with the call count. -/
def pListC (env : PEnv) : Nat → List Expr → Nat → PResC (List Expr)
  | 0, _, _ => (.error .fuel, 1)
  | f + 1, acc, i =>
    if (env.peek i).kind == "]" then (.ok (acc, i), 1)
    else
      match pExprC env f 0 i with
      | (.error e, c) => (.error e, c + 1)
      | (.ok (el, i), c) =>
        if (env.peek i).kind == "," then
          let r := pListC env f (el :: acc) (env.adv i)
          (r.1, c + r.2 + 1)
        else (.ok (el :: acc, i), c + 1)
termination_by structural fuel => fuel

/-- `pMap` with the call count. -/
def pMapC (env : PEnv) : Nat → List (Expr × Expr) → Nat → PResC (List (Expr × Expr))
  | 0, _, _ => (.error .fuel, 1)
  | f + 1, acc, i =>
    if (env.peek i).kind == "]" then (.ok (acc, i), 1)
    else
      match pExprC env f 0 i with
      | (.error e, c) => (.error e, c + 1)
      | (.ok (k, i), c) =>
        match env.mustEat ":" i with
        | .error e => (.error e, c + 1)
        | .ok (_, i) =>
          match pExprC env f 0 i with
          | (.error e, c₂) => (.error e, c + c₂ + 1)
          | (.ok (v, i), c₂) =>
            if (env.peek i).kind == "," then
              let r := pMapC env f ((k, v) :: acc) (env.adv i)
              (r.1, c + c₂ + r.2 + 1)
            else (.ok ((k, v) :: acc, i), c + c₂ + 1)
termination_by structural fuel => fuel

/-- `pObj` with the call count. -/
def pObjC (env : PEnv) : Nat → List (String × Expr) → Nat → PResC (List (String × Expr))
  | 0, _, _ => (.error .fuel, 1)
  | f + 1, acc, i =>
    if (env.peek i).kind == "}" then (.ok (acc, i), 1)
    else
      match env.mustEat "<sym>" i with
      | .error e => (.error e, 1)
      | .ok (n, i) =>
        match env.mustEat ":" i with
        | .error e => (.error e, 1)
        | .ok (_, i) =>
          match pExprC env f 0 i with
          | (.error e, c) => (.error e, c + 1)
          | (.ok (v, i), c) =>
            if (env.peek i).kind == "," then
              let r := pObjC env f ((n.lexeme, v) :: acc) (env.adv i)
              (r.1, c + r.2 + 1)
            else (.ok ((n.lexeme, v) :: acc, i), c + 1)
termination_by structural fuel => fuel

end

/-- `parseWith` with the call count (the final `mustEat` is not a call). -/
def parseWithC (fuel : Nat) (ops : List Operator) (times : List (String × Int))
    (toks : List Token) : Except ParseErr Expr × Nat :=
  let env : PEnv := { g := newGrammar ops, toks := toks.toArray, times := times }
  match pExprC env fuel 0 0 with
  | (.error e, c) => (.error e, c)
  | (.ok (e, i), c) =>
    match env.mustEat tkEOF i with
    | .error e => (.error e, c)
    | .ok _ => (.ok e, c)

/-- `parse` with the call count. -/
def parseC (ops : List Operator) (times : List (String × Int)) (toks : List Token) :
    Except ParseErr Expr × Nat :=
  parseWithC (parseFuel toks.length) ops times toks

end Yae
