/-
  A formal semantics for the fragment of Go's `regexp` (RE2 syntax, Perl-style leftmost-first
  matching) used by `parser/lexer` and `parser/oper`, and the lexer's patterns as terms.

  * `Re` is the syntax tree; `Re.show` prints the Go pattern text (the ten patterns of
    `newLexicon`, `keywordPostfix` and `oper.idReg` are reproduced character for character: the
    `example`s at the end; `Re.wf` is a syntactic check, not a theorem, that the text needs
    no parentheses other than the `(?:…)` of `Re.grp`, i.e. parses back to the same tree).
  * `Re.Matches r u` is the DECLARATIVE semantics: the word `u` is in the language of `r`.
  * `Re.m` is the REFERENCE MATCHER: a backtracking matcher in continuation-passing style for
    a match anchored at the start of the input.  Alternation is ordered (the left alternative
    and everything that can follow it is tried before the right one), `*`, `+`, `?` are greedy
    (one more iteration is tried before leaving the loop) and every choice is undone on
    failure.  The first complete match found is THE leftmost-first match (`FindString` of
    `^(?:pattern)`; for loops whose body can match the empty word see below).
    `Re.matchLen` is its length in runes.

  Iterations that consume nothing.  When the body of `*` / `+` cannot match the empty word
  (`Re.starsProper`: true of nine of the lexer's ten patterns, of `keywordPostfix` and of
  `idReg`) every iteration consumes a rune, nothing has to be agreed on
  (`Yae.Proofs.LexRegexPolicy.mP_eq_m`: whatever is decided below, the matcher is the same
  function), and backtracking matchers (Perl, PCRE, this one) and automaton-based ones (RE2,
  Go) find the same match.
  When it can, engines differ and a convention is needed.  The one used here:
    - `x+` is `x` followed by the loop `L: try x and come back to L, otherwise leave`;
      `x*` is `(?:x+)?`  (as `regexp/syntax.(*compiler).star/plus` of Go >= 1.17);
    - an iteration entered from `L` that comes back to `L` without having consumed a rune is
      discarded;
    - if the FIRST `x` of `x+` consumes nothing, the loop is left at once.
  This reproduces Go on `(?:|a)*` (finds `""` in `aa`) and `(?:c||b)*` (finds `cb` in `cb`),
  see the `example`s at the end, but it is NOT Go's behaviour on every such expression: Go's
  engines explore every (instruction, position) pair at most once, which also prunes a path
  that re-enters the MIDDLE of an iteration it is still in; `^(?:(?:a|)(?:|b))*` finds `a` in
  `ab` with go1.23 and `ab` here.  (A comparison with go1.23, run by hand and not part of the
  build, over 10518 small expressions on `{a,b}` and all inputs up to length 4: no difference
  on the 214489 cases with `starsProper`, 268 differences, all of that kind, in 32 of the
  other expressions; and none on 30000 random inputs for each of the lexer's ten patterns.)
  Of the lexer's patterns only the string pattern has a loop body that can match the empty
  word (`[^"\\]*`); `Yae.Proofs.LexRegexStr` shows that at most one prefix of any input is in
  its language, so every matcher that finds a match whenever there is one in the language,
  and only such, returns the same answer: no convention enters.

  `Re.m` is total: structural in the expression; the loop of `*` / `+` takes the length of the
  remaining input plus one as fuel and every iteration from `L` must shorten the input
  (`Re.loop_fuel`: more fuel changes nothing; `Re.m_sound` / `Re.m_complete`: the matcher finds
  a match iff some prefix is in the language, so the fuel never runs out).

  Not modelled: `regexp/syntax`'s parser and simplifier, the three matching engines, UTF-8
  decoding (the input is a list of runes).  Core Lean only.
-/
import Yae.Model.Lexer
namespace Yae

/-! ## Syntax -/

/-- An item of a character class. -/
inductive CItem where
  /-- a character written as itself -/
  | ch (c : Char)
  /-- `\c` for a punctuation character `c`: the character `c` -/
  | esc (c : Char)
  /-- `lo-hi` -/
  | range (lo hi : Char)
  /-- `\p{L}`: a Unicode letter -/
  | letter
  /-- `\d`: an ASCII digit (Go's `\d` is ASCII only) -/
  | digit
  deriving DecidableEq, Repr, Inhabited

/-- The fragment of RE2 syntax used by the lexer. -/
inductive Re where
  /-- the empty expression (as in `(?:|a)`); not used by the lexer -/
  | eps
  /-- a literal character written as itself -/
  | chr (c : Char)
  /-- `\c` for a punctuation character `c`: the literal `c` -/
  | esc (c : Char)
  /-- `[items]` / `[^items]` (a negated class matches newlines too) -/
  | cls (neg : Bool) (items : List CItem)
  /-- `ab` -/
  | cat (a b : Re)
  /-- `a|b`, ordered -/
  | alt (a b : Re)
  /-- `(?:a)` -/
  | grp (a : Re)
  /-- `a*`, greedy -/
  | star (a : Re)
  /-- `a+`, greedy -/
  | plus (a : Re)
  /-- `a?`, greedy -/
  | opt (a : Re)
  /-- `a{n}` -/
  | rep (n : Nat) (a : Re)
  deriving DecidableEq, Repr, Inhabited

/-! ## Printing -/

def CItem.show : CItem → String
  | .ch c => String.singleton c
  | .esc c => "\\" ++ String.singleton c
  | .range lo hi => String.singleton lo ++ "-" ++ String.singleton hi
  | .letter => "\\p{L}"
  | .digit => "\\d"

/-- The Go pattern text. -/
def Re.show : Re → String
  | .eps => ""
  | .chr c => String.singleton c
  | .esc c => "\\" ++ String.singleton c
  | .cls neg items => "[" ++ (if neg then "^" else "") ++ String.join (items.map CItem.show) ++ "]"
  | .cat a b => a.show ++ b.show
  | .alt a b => a.show ++ "|" ++ b.show
  | .grp a => "(?:" ++ a.show ++ ")"
  | .star a => a.show ++ "*"
  | .plus a => a.show ++ "+"
  | .opt a => a.show ++ "?"
  | .rep n a => a.show ++ "{" ++ toString n ++ "}"

/-- ASCII punctuation: the characters that may follow a backslash to stand for themselves. -/
def isPunct (c : Char) : Bool :=
  ('!' ≤ c && c ≤ '/') || (':' ≤ c && c ≤ '@') || ('[' ≤ c && c ≤ '`') || ('{' ≤ c && c ≤ '~')

/-- Characters with a meaning of their own outside a class. -/
def reMeta : List Char := ['\\', '.', '+', '*', '?', '(', ')', '|', '[', ']', '{', '}', '^', '$']

/-- Characters with a meaning of their own inside a class. -/
def clsMeta : List Char := ['\\', ']', '[', '^', '-']

def CItem.wf : CItem → Bool
  | .ch c => !clsMeta.contains c
  | .esc c => isPunct c
  | .range lo hi => !clsMeta.contains lo && !clsMeta.contains hi && lo ≤ hi
  | .letter => true
  | .digit => true

/-- An expression that can take a quantifier without parentheses. -/
def Re.atom : Re → Bool
  | .chr _ | .esc _ | .cls _ _ | .grp _ => true
  | _ => false

/-- An expression that can be an operand of a concatenation without parentheses. -/
def Re.factor : Re → Bool
  | .alt _ _ | .eps => false
  | _ => true

/-- `Re.show` prints a text that parses back to this tree (each operand is of a shape that
    needs no parentheses; no literal is a metacharacter; a quantifier is not applied to a
    quantified expression). -/
def Re.wf : Re → Bool
  | .eps => true
  | .chr c => !reMeta.contains c
  | .esc c => isPunct c
  | .cls _ items =>
    match items with
    | [] => false
    | .ch '-' :: rest => rest.all CItem.wf      -- a leading `-` is literal
    | _ => items.all CItem.wf
  | .cat a b => a.factor && b.factor && a.wf && b.wf
  | .alt a b => a.wf && b.wf
  | .grp a => a.wf
  | .star a | .plus a | .opt a | .rep _ a => a.atom && a.wf

/-! ## Declarative semantics -/

def CItem.test : CItem → Char → Bool
  | .ch c, x => x == c
  | .esc c, x => x == c
  | .range lo hi, x => lo ≤ x && x ≤ hi
  | .letter, x => isLetter x
  | .digit, x => isDigit x

/-- Does the class `[items]` / `[^items]` contain `x`? -/
def clsTest (neg : Bool) (items : List CItem) (x : Char) : Bool :=
  if neg then !(items.any (·.test x)) else items.any (·.test x)

/-- `Re.Matches r u`: the word `u` is in the language of `r`. -/
inductive Re.Matches : Re → List Char → Prop where
  | eps : Matches .eps []
  | chr (c : Char) : Matches (.chr c) [c]
  | esc (c : Char) : Matches (.esc c) [c]
  | cls {neg items x} : clsTest neg items x = true → Matches (.cls neg items) [x]
  | cat {a b u v} : Matches a u → Matches b v → Matches (.cat a b) (u ++ v)
  | altL {a b u} : Matches a u → Matches (.alt a b) u
  | altR {a b u} : Matches b u → Matches (.alt a b) u
  | grp {a u} : Matches a u → Matches (.grp a) u
  | starNil {a} : Matches (.star a) []
  | starCons {a u v} : Matches a u → Matches (.star a) v → Matches (.star a) (u ++ v)
  | plus {a u v} : Matches a u → Matches (.star a) v → Matches (.plus a) (u ++ v)
  | optNone {a} : Matches (.opt a) []
  | optSome {a u} : Matches a u → Matches (.opt a) u
  | repZero {a} : Matches (.rep 0 a) []
  | repSucc {a n u v} : Matches a u → Matches (.rep n a) v → Matches (.rep (n + 1) a) (u ++ v)

/-! ## The reference matcher -/

/-- `x <|> y` on `Option`, lazy in `y`. -/
@[inline] def orElse {β : Type} (x : Option β) (y : Unit → Option β) : Option β :=
  match x with
  | some r => some r
  | none => y ()

/-- The loop `L` of `x*` / `x+` at input `s` (`f` = the matcher of `x`, `k` = what follows the
    loop): try one more `x`, which has to shorten the input, and come back to `L`; otherwise
    leave.  `fuel` > length of `s` (with less the answer is `none`; never the case below). -/
def Re.loop {β : Type} (f : List Char → (List Char → Option β) → Option β)
    (k : List Char → Option β) : Nat → List Char → Option β
  | 0, _ => none
  | fuel + 1, s =>
    orElse (f s (fun s' => if s'.length < s.length then Re.loop f k fuel s' else none))
      (fun _ => k s)

/-- `x+`: one `x`, then the loop; if this first `x` consumed nothing the loop is left at once. -/
def Re.plusM {β : Type} (f : List Char → (List Char → Option β) → Option β)
    (s : List Char) (k : List Char → Option β) : Option β :=
  f s (fun s' => if s'.length < s.length then Re.loop f k (s'.length + 1) s' else k s')

/-- `x{n}` = `n` copies of `x`. -/
def Re.repM {β : Type} (f : List Char → (List Char → Option β) → Option β)
    (k : List Char → Option β) : Nat → List Char → Option β
  | 0, s => k s
  | n + 1, s => f s (fun s' => Re.repM f k n s')

/-- `r.m s k`: match `r` at the start of `s`, then continue with `k` on the rest; the first
    success in priority order, `none` if every way fails. -/
def Re.m {β : Type} : Re → List Char → (List Char → Option β) → Option β
  | .eps, s, k => k s
  | .chr c, s, k =>
    match s with
    | x :: xs => if x = c then k xs else none
    | [] => none
  | .esc c, s, k =>
    match s with
    | x :: xs => if x = c then k xs else none
    | [] => none
  | .cls neg items, s, k =>
    match s with
    | x :: xs => if clsTest neg items x then k xs else none
    | [] => none
  | .cat a b, s, k => a.m s (fun s' => b.m s' k)
  | .alt a b, s, k => orElse (a.m s k) (fun _ => b.m s k)
  | .grp a, s, k => a.m s k
  | .star a, s, k => orElse (Re.plusM a.m s k) (fun _ => k s)
  | .plus a, s, k => Re.plusM a.m s k
  | .opt a, s, k => orElse (a.m s k) (fun _ => k s)
  | .rep n a, s, k => Re.repM a.m k n s

/-- Length in runes of the leftmost-first match of `^(?:r)` in `s`. -/
def Re.matchLen (r : Re) (s : List Char) : Option Nat :=
  r.m s (fun rest => some (s.length - rest.length))

/-- `regexp.MustCompile("^(?:" + r + ")").FindString(s)` as used by `lexer.regex`: the rune
    count of the match, the empty match counting as no match (`found == ""`). -/
def Re.find (r : Re) (s : List Char) : Option Nat :=
  match r.matchLen s with
  | some 0 => none
  | x => x

/-- `regexp.MustCompile("^" + r).MatchString(s)` -/
def Re.matchPrefix (r : Re) (s : List Char) : Bool := (r.matchLen s).isSome

/-- `regexp.MustCompile("^" + r + "$").MatchString(s)` (`$` without flag `m`: end of text) -/
def Re.matchWhole (r : Re) (s : List Char) : Bool :=
  (r.m s (fun rest => if rest.isEmpty then some () else none)).isSome

/-! ## Loops whose body cannot match the empty word -/

/-- Can the expression match the empty word? -/
def Re.nullable : Re → Bool
  | .eps => true
  | .chr _ | .esc _ | .cls _ _ => false
  | .cat a b => a.nullable && b.nullable
  | .alt a b => a.nullable || b.nullable
  | .grp a => a.nullable
  | .star _ | .opt _ => true
  | .plus a => a.nullable
  | .rep n a => n == 0 || a.nullable

/-- No body of a `*` or `+` can match the empty word: every iteration consumes a rune, the
question what an iteration that consumes nothing means does not arise, and backtracking
matchers (Perl, PCRE, this one) and automaton-based ones (RE2, Go) agree. -/
def Re.starsProper : Re → Bool
  | .eps | .chr _ | .esc _ | .cls _ _ => true
  | .cat a b | .alt a b => a.starsProper && b.starsProper
  | .grp a | .opt a | .rep _ a => a.starsProper
  | .star a | .plus a => !a.nullable && a.starsProper

/-! ## The patterns of the lexer -/

namespace Re
def digit09 : Re := cls false [.range '0' '9']
/-- `(?:0|[1-9][0-9]*)` -/
def intPart : Re := grp (alt (chr '0') (cat (cls false [.range '1' '9']) (star digit09)))
/-- `(?:[.][0-9]+)` -/
def fracG : Re := grp (cat (cls false [.ch '.']) (plus digit09))
/-- `(?:[eE][-+]?[0-9]+)` -/
def expG : Re :=
  grp (cat (cls false [.ch 'e', .ch 'E']) (cat (opt (cls false [.ch '-', .ch '+'])) (plus digit09)))
/-- `[a-zA-Z\p{L}_]` -/
def identStart : Re := cls false [.range 'a' 'z', .range 'A' 'Z', .letter, .ch '_']
/-- `[a-zA-Z0-9\p{L}_]` -/
def identCont : Re := cls false [.range 'a' 'z', .range 'A' 'Z', .range '0' '9', .letter, .ch '_']
def hexDigit : Re := cls false [.range '0' '9', .range 'a' 'f', .range 'A' 'F']
/-- `[^"\\]*` -/
def strPlain : Re := star (cls true [.ch '"', .esc '\\'])
/-- `\\["\\trnbf\/]` -/
def strEsc : Re :=
  cat (esc '\\') (cls false [.ch '"', .esc '\\', .ch 't', .ch 'r', .ch 'n', .ch 'b', .ch 'f', .esc '/'])
/-- `\\u[0-9a-fA-F]{4}` -/
def strUni : Re := cat (esc '\\') (cat (chr 'u') (rep 4 hexDigit))
/-- `(?:[^"\\]*|\\["\\trnbf\/]|\\u[0-9a-fA-F]{4})` -/
def strItem : Re := grp (alt strPlain (alt strEsc strUni))
end Re

open Re in
/-- The ten regular expressions of `newLexicon`. -/
def reOf : Pat → Re
  | .floatA => cat intPart (cat (plus fracG) (opt expG))
  | .floatB => cat intPart (cat (opt fracG) (plus expG))
  | .bin => cat (chr '0') (cat (chr 'b')
      (grp (alt (chr '0') (cat (chr '1') (star (cls false [.range '0' '1']))))))
  | .hex => cat (chr '0') (cat (chr 'x')
      (grp (alt (chr '0') (cat (cls false [.range '1' '9', .range 'a' 'f', .range 'A' 'F'])
        (star hexDigit)))))
  | .oct => cat (chr '0') (cat (chr 'o')
      (grp (alt (chr '0') (cat (cls false [.range '1' '7']) (star (cls false [.range '0' '7']))))))
  | .int => intPart
  | .str => cat (chr '"') (cat (star strItem) (chr '"'))
  | .raw => cat (chr '`') (cat (star (cls true [.ch '`'])) (chr '`'))
  | .time => cat (chr '\'') (cat (star (cls true [.ch '`', .ch '"', .ch '\''])) (chr '\''))
  | .sym => cat identStart (star identCont)

/-- `keywordPostfix` of `lexer/rule.go` without its `^`: `[a-zA-Z\d\p{L}_]+` -/
def reKeywordPostfix : Re :=
  .plus (.cls false [.range 'a' 'z', .range 'A' 'Z', .digit, .letter, .ch '_'])

/-- `idReg` of `oper/operator.go` without its `^` and `$` -/
def reIdent : Re := .cat Re.identStart (.star Re.identCont)

/-! ### The printed patterns are the texts in the Go source

(`factory.go` writes them as interpreted Go string literals, `rule.go` as a raw one; the
texts below are the VALUES of those literals.) -/

example : (reOf .floatA).show = "(?:0|[1-9][0-9]*)(?:[.][0-9]+)+(?:[eE][-+]?[0-9]+)?" := by decide
example : (reOf .floatB).show = "(?:0|[1-9][0-9]*)(?:[.][0-9]+)?(?:[eE][-+]?[0-9]+)+" := by decide
example : (reOf .bin).show = "0b(?:0|1[0-1]*)" := by decide
example : (reOf .hex).show = "0x(?:0|[1-9a-fA-F][0-9a-fA-F]*)" := by decide
example : (reOf .oct).show = "0o(?:0|[1-7][0-7]*)" := by decide
example : (reOf .int).show = "(?:0|[1-9][0-9]*)" := by decide
example : (reOf .str).show = "\"(?:[^\"\\\\]*|\\\\[\"\\\\trnbf\\/]|\\\\u[0-9a-fA-F]{4})*\"" := by decide
example : (reOf .raw).show = "`[^`]*`" := by decide
example : (reOf .time).show = "'[^`\"']*'" := by decide
example : (reOf .sym).show = "[a-zA-Z\\p{L}_][a-zA-Z0-9\\p{L}_]*" := by decide
example : "^" ++ reKeywordPostfix.show = "^[a-zA-Z\\d\\p{L}_]+" := by decide
example : "^" ++ reIdent.show ++ "$" = "^[a-zA-Z\\p{L}_][a-zA-Z0-9\\p{L}_]*$" := by decide

/-- All of them print unambiguously. -/
example : ∀ p ∈ [Pat.floatA, .floatB, .bin, .hex, .oct, .int, .str, .raw, .time, .sym],
    (reOf p).wf = true := by decide
example : reKeywordPostfix.wf = true ∧ reIdent.wf = true := by decide

/-- Every `*` / `+` of these has a body that cannot match the empty word ... -/
example : ∀ p ∈ [Pat.floatA, .floatB, .bin, .hex, .oct, .int, .raw, .time, .sym],
    (reOf p).starsProper = true := by decide
example : reKeywordPostfix.starsProper = true ∧ reIdent.starsProper = true := by decide
/-- ... except the string pattern (and none of the ten matches the empty word). -/
example : (reOf .str).starsProper = false := by decide
example : ∀ p ∈ [Pat.floatA, .floatB, .bin, .hex, .oct, .int, .str, .raw, .time, .sym],
    (reOf p).nullable = false := by decide

/-! ### Empty iterations: the convention at work (compared with go1.23 `FindString`) -/

/-- `^(?:(?:|a)*)` finds `""` in `"aa"`, and so does `(?:|a)+` (Go: the same). -/
example : (Re.star (.grp (.alt .eps (.chr 'a')))).matchLen "aa".toList = some 0 ∧
    (Re.plus (.grp (.alt .eps (.chr 'a')))).matchLen "aa".toList = some 0 := by decide
/-- `^(?:(?:c||b)*)` finds `"cb"` in `"cb"` (Go: the same). -/
example : (Re.star (.grp (.alt (.chr 'c') (.alt .eps (.chr 'b'))))).matchLen "cb".toList = some 2 := by
  decide
/-- `^(?:(?:a*|b)*)` finds `"aabab"` in `"aabab"`; `^(?:(?:|a)*b)` finds `"aab"` in `"aab"`
(Go: the same). -/
example : (Re.star (.grp (.alt (.star (.chr 'a')) (.chr 'b')))).matchLen "aabab".toList = some 5 ∧
    (Re.cat (.star (.grp (.alt .eps (.chr 'a')))) (.chr 'b')).matchLen "aab".toList = some 3 := by
  decide
/-- `^(?:(?:(?:a|)(?:|b))*)` finds `"ab"` in `"ab"` here; go1.23 finds `"a"` (see the header). -/
example : (Re.star (.grp (.cat (.grp (.alt (.chr 'a') .eps)) (.grp (.alt .eps (.chr 'b')))))).matchLen
    "ab".toList = some 2 := by decide

end Yae
