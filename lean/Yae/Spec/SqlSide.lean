/-
  C20: the side condition of the structural theorem (`Yae.C20.structural`).

  `sideOK venv c` is a decidable, purely syntactic condition on the criteria tree and the run-time
  environment.  It excludes exactly the following (each exclusion is justified by a kernel-checked
  counterexample in `Yae/Props/C20.lean`):
    * SQL1 — a number that is NaN or ±Inf (as a literal, as the value of a bound name or of `o.f`);
    * a column (unbound) name containing a back quote;
    * SQL3 — `IN` whose second operand is not a list literal: an unbound list-typed name (no other
      non-literal second operand yields a text: a bound list value has no SQL form);
    * an empty list literal, and a one-element list literal anywhere but directly as the second
      operand of `IN` (a one-element row is read as a parenthesised expression);
    * a function application as an operand of a condition where the missing parentheses matter
      (operands are compiled at precedence 0 and never parenthesised): any application as a second
      or later operand (`a = (x = y)` is written `a = x = y`), and an application of a connective
      as any operand (`(b AND c) = a` is written `b AND c = a`).  A *condition* as the FIRST
      operand (`(x = y) = z`, written `x = y = z`, which the reader nests to the left) is allowed,
      and so are applications as items of a list;
    * a `Cond` whose operator is one of the connective names AND/OR/NOT (`treeOf` calls it a
      condition, the text is a connective).
  Expression forms for which `sql.Compile` panics anyway (maps, objects, subscripts, `e.f` with `e`
  not a name, calls of computed callees: `compileOk` is false, no text is produced) are outside
  `sideOK` as well; this excludes nothing.
  It does not restrict string operands, negative numbers, times, the nesting of groups, nor the
  compile-time environment.
-/
import Yae.Model.SqlRead
namespace Yae.Sql
open Yae

/-- where an expression stands: argument of a connective / top level / list item (`logic`),
first operand of a condition (`first`), another operand of a condition (`operand`), second operand
of `IN` (`inList`) -/
inductive Pos' where
  | logic | first | operand | inList
  deriving DecidableEq, Repr

/-- the positions of an argument list: all alike, the operands of a condition, or those of `IN` -/
inductive ArgPos where
  | each (m : Pos')
  | cmpArgs
  | inArgs
  deriving DecidableEq, Repr

def ArgPos.head : ArgPos → Pos'
  | .each m => m
  | .cmpArgs => .first
  | .inArgs => .first
def ArgPos.tail : ArgPos → ArgPos
  | .each m => .each m
  | .cmpArgs => .each .operand
  | .inArgs => .each .inList

def logicNames : List String := ["AND", "OR", "NOT"]

/-- the positions of the arguments of the function called `fname` -/
def argPos (fname : String) : ArgPos :=
  if fname = "IN" then .inArgs else if fname ∈ logicNames then .each .logic else .cmpArgs

/-- SQL1: a number must be finite to have an SQL form -/
def okVal : Val → Bool
  | .num x => Num.isFinite x
  | _ => true

/-- a name: its run-time value if bound, otherwise a column name, which must not contain a back
quote -/
def okName (venv : List (String × Val)) (name : String) : Bool :=
  match (venv.find? fun p => p.1 == name) with
  | some (_, v) => okVal v
  | none => !name.toList.contains '`'

def okMember (venv : List (String × Val)) (id field : String) : Bool :=
  match (venv.find? fun p => p.1 == id) with
  | some (_, .obj ty vs) =>
    match objGet? ty vs field with
    | some v => okVal v
    | none => true
  | _ => true

mutual
def okE (venv : List (String × Val)) : Pos' → Expr → Bool
  | m, .str _ _ => m != .inList
  | m, .num _ v => m != .inList && Num.isFinite v
  | m, .time _ _ => m != .inList
  | m, .bool _ _ => m != .inList
  | m, .ident _ name => m != .inList && okName venv name
  | m, .member _ _ obj field _ _ _ =>
    match obj with
    | .ident _ id => m != .inList && okMember venv id field
    | _ => false
  | m, .list _ es _ =>
    (if m = .inList then decide (1 ≤ es.length) else decide (2 ≤ es.length)) &&
      okList venv (.each .logic) es
  | m, .call _ _ callee args _ _ _ =>
    match callee with
    | .ident _ fname =>
      (m == .logic || (m == .first && !logicNames.contains fname)) && okList venv (argPos fname) args
    | _ => false
  | _, _ => false
def okList (venv : List (String × Val)) : ArgPos → ExprList → Bool
  | _, .nil => true
  | lm, .cons e es => okE venv lm.head e && okList venv lm.tail es
end

mutual
/-- no `Cond` uses a connective name as its operator -/
def condOpsOK : Criteria → Bool
  | .cond _ op _ => !logicNames.contains op
  | .group _ cs => condOpsOKList cs
def condOpsOKList : CriteriaList → Bool
  | .nil => true
  | .cons c cs => condOpsOK c && condOpsOKList cs
end

/-- the side condition of C20's structural theorem -/
def sideOK (venv : List (String × Val)) (c : Criteria) : Bool :=
  condOpsOK c && okE venv .logic c.expr

end Yae.Sql
