/-
  The typing rules of yae, stated declaratively (C05).

  `Typed Γ e T` : expression `e` has type `T` in the environment `Γ` (variables, the overload
  table in registration order, reserved words).  The rules mention neither the type-variable
  counter nor unification: the only auxiliary notion is `instantiate`, first-order matching of a
  parameter list against the (variable-free) argument types.

  `Typed'` is the same system with the *natural* overload rule (the first polymorphic overload
  that can be instantiated **and** whose instantiated parameters equal the argument types); `Typed`
  encodes what the checker really does (finding D22): it commits to the first overload that can
  be instantiated up to `⊥`/`⊤` absorption and then rejects the program if the instantiated
  parameters are not equal to the argument types.
-/
import Yae.Model.Check
import Yae.Model.Eval
import Yae.Proofs.TyEq
namespace Yae

/-- The engine's function table when only the built-ins are registered: `fun.BuiltIn()` in
registration order, each referring to its own position (what the harness sends as `builtins`). -/
def builtinFunsFrom : Nat → List BuiltinDecl → List FunDecl
  | _, [] => []
  | i, b :: bs => { ty := b.ty, ref := .builtin i, isLazy := b.isLazy } :: builtinFunsFrom (i+1) bs

def builtinFuns : List FunDecl := builtinFunsFrom 0 builtins

/-- the typing environment of the built-ins alone, with the reserved words of the lexer -/
def builtinEnv (vars : List (String × Ty)) : TEnv := ⟨vars, builtinFuns, reservedWords⟩

/-! ## instantiating a parameter list

`pmatch p g σ` matches the pattern `p` (a parameter type, possibly with type variables) against
the variable-free type `g` (an argument type), extending the instantiation `σ`:
* a variable is bound to `g`; if it is bound already the binding must equal `g` (`tyEq`);
* primitives match themselves, composites match component-wise (objects field by name, the
  same number of fields);
* `⊥` as argument type is matched by every non-variable pattern and `⊤` as pattern matches every
  argument (the two absorption cases), *binding nothing*;
* function-typed parameters are outside the fragment (no registered signature has one).
It returns the *instantiated pattern* (what the final acceptance test compares with the argument
type; under an absorption case this is the raw pattern) and the extended instantiation. -/
mutual
def pmatch : Ty → Ty → Subst → Option (Ty × Subst)
  | .var n, g, m =>
    match m.get? n with
    | some k => if tyEq k g then some (g, m.set n g) else none
    | none => some (g, m.set n g)
  | .num, .num, m => some (.num, m)
  | .str, .str, m => some (.str, m)
  | .bool, .bool, m => some (.bool, m)
  | .time, .time, m => some (.time, m)
  | .list a, .list b, m =>
    match pmatch a b m with
    | some (t, m) => some (.list t, m)
    | none => none
  | .maybe a, .maybe b, m =>
    match pmatch a b m with
    | some (t, m) => some (.maybe t, m)
    | none => none
  | .map k v, .map k' v', m =>
    match pmatch k k' m with
    | some (k1, m) =>
      match pmatch v v' m with
      | some (v1, m) => some (.map k1 v1, m)
      | none => none
    | none => none
  | .tuple xs, .tuple ys, m =>
    if xs.length != ys.length then none else
    match pmatchList xs ys m with
    | some (ts, m) => some (.tuple ts, m)
    | none => none
  | .obj fs, .obj gs, m =>
    if fs.length != gs.length then none else
    match pmatchFields fs gs m with
    | some (hs, m) => some (.obj hs, m)
    | none => none
  | .fn _ _ _, .fn _ _ _, _ => none
  | .top, _, m => some (.top, m)
  | p, .bot, m => some (p, m)
  | _, _, _ => none
def pmatchList : TyList → TyList → Subst → Option (TyList × Subst)
  | .cons x xs, .cons y ys, m =>
    match pmatch x y m with
    | some (t, m) =>
      match pmatchList xs ys m with
      | some (ts, m) => some (.cons t ts, m)
      | none => none
    | none => none
  | _, _, m => some (.nil, m)
def pmatchFields : FieldList → FieldList → Subst → Option (FieldList × Subst)
  | .nil, _, m => some (.nil, m)
  | .cons n t rest, gs, m =>
    match gs.find? n with
    | none => none
    | some u =>
      match pmatch t u m with
      | some (t', m) =>
        match pmatchFields rest gs m with
        | some (fs, m) => some (.cons n t' fs, m)
        | none => none
      | none => none
end

/-- `instantiate params ret args`: the parameters can be instantiated to the argument types
(same number, matched left to right under one instantiation) and the instantiated result type
is fully concrete (no variable left).  Result: instantiated parameters and result type. -/
def instantiate (ps : TyList) (ret : Ty) (args : TyList) : Option (TyList × Ty) :=
  if ps.length != args.length then none else
  match pmatchList ps args [] with
  | none => none
  | some (ps', σ) => if slotFree (substG σ ret) then some (ps', substG σ ret) else none

/-- keys of the overload table -/
def monoKey (f : String) (args : TyList) : String := (overloadKey f args .bot).1
def polyKey (f : String) (n : Nat) : String := "∀.λ " ++ f ++ " " ++ toString n

/-- `FirstInst cands args ps' T`: the *first* candidate in registration order that can be
instantiated to the argument types, with its instantiated parameters and result. -/
inductive FirstInst : List FunDecl → TyList → TyList → Ty → Prop
  | here {d : FunDecl} {rest name ps ret args ps' T} :
      d.ty = .fn name ps ret → instantiate ps ret args = some (ps', T) →
      FirstInst (d :: rest) args ps' T
  | later {d : FunDecl} {rest name ps ret args ps' T} :
      d.ty = .fn name ps ret → instantiate ps ret args = none →
      FirstInst rest args ps' T → FirstInst (d :: rest) args ps' T

/-- the natural rule: the first candidate that can be instantiated *and* is accepted -/
inductive FirstAccepted : List FunDecl → TyList → TyList → Ty → Prop
  | here {d : FunDecl} {rest name ps ret args ps' T} :
      d.ty = .fn name ps ret → instantiate ps ret args = some (ps', T) →
      tyEqList ps' args = true → FirstAccepted (d :: rest) args ps' T
  | later {d : FunDecl} {rest name ps ret args ps' T} :
      d.ty = .fn name ps ret →
      (∀ qs U, instantiate ps ret args = some (qs, U) → tyEqList qs args = false) →
      FirstAccepted rest args ps' T → FirstAccepted (d :: rest) args ps' T

def Expr.isIdent : Expr → Bool
  | .ident _ _ => true
  | _ => false

/-! ## the rules -/

mutual
inductive Typed (Γ : TEnv) : Expr → Ty → Prop
  | str (p v) : Typed Γ (.str p v) .str
  | num (p v) : Typed Γ (.num p v) .num
  | time (p v) : Typed Γ (.time p v) .time
  | bool (p v) : Typed Γ (.bool p v) .bool
  /-- the empty list has element type `⊥` -/
  | listNil (p ty) : Typed Γ (.list p .nil ty) (.list .bot)
  /-- a non-empty list takes the type of its first element, the others must equal it -/
  | listCons {p e es ty T} : Typed Γ e T → TypedElems Γ es T → Typed Γ (.list p (.cons e es) ty) (.list T)
  | mapNil (p ty) : Typed Γ (.map p .nil ty) (.map .bot .bot)
  /-- a non-empty map takes key and value type of its first entry; the key type is primitive -/
  | mapCons {p k v ps ty K V} : Typed Γ k K → K.isPrimitive = true → Typed Γ v V →
      TypedPairs Γ ps K V → Typed Γ (.map p (.cons k v ps) ty) (.map K V)
  /-- an object: the field types in order, field names pairwise distinct -/
  | obj {p fs ty Fs} : TypedFields Γ fs Fs → Fs.names.Nodup → Typed Γ (.obj p fs ty) (.obj Fs)
  /-- an identifier: not a reserved word, bound in the environment -/
  | ident {p x T} : Γ.reserved.contains x = false → Γ.lookupVar x = some T → Typed Γ (.ident p x) T
  /-- a list is indexed by a number -/
  | subList {p col v i vty El I} : Typed Γ v (.list El) → Typed Γ i I → tyEq I .num = true →
      Typed Γ (.subscript p col v i vty) El
  /-- a map is indexed by its key type -/
  | subMap {p col v i vty K V I} : Typed Γ v (.map K V) → Typed Γ i I → tyEq I K = true →
      Typed Γ (.subscript p col v i vty) V
  /-- field access on an object type that has the field -/
  | member {p col o f fp oty idx Fs T} : Typed Γ o (.obj Fs) → Fs.find? f = some T →
      Typed Γ (.member p col o f fp oty idx) T
  /-- `f(args)`, monomorphic: the (last registered) monomorphic overload whose key is the key of
  `(f, argument types)`; its parameters equal the argument types -/
  | callMono {p col cp f args cty res idx As d name ps ret} : TypedArgs Γ args As →
      lookupMono Γ.funs (monoKey f As) = some d → d.ty = .fn name ps ret →
      ps.length = As.length → tyEqList ps As = true →
      Typed Γ (.call p col (.ident cp f) args cty res idx) ret
  /-- `f(args)`, polymorphic: no monomorphic overload under the key; the first polymorphic
  overload of that name and arity that can be instantiated; its instantiated parameters equal
  the argument types (if they do not the call is ill-typed, later overloads are not tried) -/
  | callPoly {p col cp f args cty res idx As ps' T} : TypedArgs Γ args As →
      lookupMono Γ.funs (monoKey f As) = none →
      FirstInst (lookupPoly Γ.funs (polyKey f As.length)) As ps' T →
      tyEqList ps' As = true →
      Typed Γ (.call p col (.ident cp f) args cty res idx) T
  /-- a call of a function-typed expression -/
  | callFn {p col callee args cty res idx As name ps ret ps' T} : callee.isIdent = false →
      TypedArgs Γ args As → Typed Γ callee (.fn name ps ret) →
      instantiate ps ret As = some (ps', T) → tyEqList ps' As = true →
      Typed Γ (.call p col callee args cty res idx) T
/-- every element has a type equal to `T` -/
inductive TypedElems (Γ : TEnv) : ExprList → Ty → Prop
  | nil {T} : TypedElems Γ .nil T
  | cons {e es T U} : Typed Γ e U → tyEq T U = true → TypedElems Γ es T → TypedElems Γ (.cons e es) T
/-- every key has a type equal to `K`, every value a type equal to `V` -/
inductive TypedPairs (Γ : TEnv) : PairList → Ty → Ty → Prop
  | nil {K V} : TypedPairs Γ .nil K V
  | cons {k v ps K V K' V'} : Typed Γ k K' → tyEq K K' = true → Typed Γ v V' → tyEq V V' = true →
      TypedPairs Γ ps K V → TypedPairs Γ (.cons k v ps) K V
inductive TypedFields (Γ : TEnv) : FieldEList → FieldList → Prop
  | nil : TypedFields Γ .nil .nil
  | cons {n e fs T Fs} : Typed Γ e T → TypedFields Γ fs Fs → TypedFields Γ (.cons n e fs) (.cons n T Fs)
inductive TypedArgs (Γ : TEnv) : ExprList → TyList → Prop
  | nil : TypedArgs Γ .nil .nil
  | cons {e es T Ts} : Typed Γ e T → TypedArgs Γ es Ts → TypedArgs Γ (.cons e es) (.cons T Ts)
end

/-! ## the natural system: only the polymorphic call rule differs -/

mutual
inductive Typed' (Γ : TEnv) : Expr → Ty → Prop
  | str (p v) : Typed' Γ (.str p v) .str
  | num (p v) : Typed' Γ (.num p v) .num
  | time (p v) : Typed' Γ (.time p v) .time
  | bool (p v) : Typed' Γ (.bool p v) .bool
  | listNil (p ty) : Typed' Γ (.list p .nil ty) (.list .bot)
  | listCons {p e es ty T} : Typed' Γ e T → TypedElems' Γ es T → Typed' Γ (.list p (.cons e es) ty) (.list T)
  | mapNil (p ty) : Typed' Γ (.map p .nil ty) (.map .bot .bot)
  | mapCons {p k v ps ty K V} : Typed' Γ k K → K.isPrimitive = true → Typed' Γ v V →
      TypedPairs' Γ ps K V → Typed' Γ (.map p (.cons k v ps) ty) (.map K V)
  | obj {p fs ty Fs} : TypedFields' Γ fs Fs → Fs.names.Nodup → Typed' Γ (.obj p fs ty) (.obj Fs)
  | ident {p x T} : Γ.reserved.contains x = false → Γ.lookupVar x = some T → Typed' Γ (.ident p x) T
  | subList {p col v i vty El I} : Typed' Γ v (.list El) → Typed' Γ i I → tyEq I .num = true →
      Typed' Γ (.subscript p col v i vty) El
  | subMap {p col v i vty K V I} : Typed' Γ v (.map K V) → Typed' Γ i I → tyEq I K = true →
      Typed' Γ (.subscript p col v i vty) V
  | member {p col o f fp oty idx Fs T} : Typed' Γ o (.obj Fs) → Fs.find? f = some T →
      Typed' Γ (.member p col o f fp oty idx) T
  | callMono {p col cp f args cty res idx As d name ps ret} : TypedArgs' Γ args As →
      lookupMono Γ.funs (monoKey f As) = some d → d.ty = .fn name ps ret →
      ps.length = As.length → tyEqList ps As = true →
      Typed' Γ (.call p col (.ident cp f) args cty res idx) ret
  /-- the first polymorphic overload that can be instantiated to exactly the argument types -/
  | callPoly {p col cp f args cty res idx As ps' T} : TypedArgs' Γ args As →
      lookupMono Γ.funs (monoKey f As) = none →
      FirstAccepted (lookupPoly Γ.funs (polyKey f As.length)) As ps' T →
      Typed' Γ (.call p col (.ident cp f) args cty res idx) T
  | callFn {p col callee args cty res idx As name ps ret ps' T} : callee.isIdent = false →
      TypedArgs' Γ args As → Typed' Γ callee (.fn name ps ret) →
      instantiate ps ret As = some (ps', T) → tyEqList ps' As = true →
      Typed' Γ (.call p col callee args cty res idx) T
inductive TypedElems' (Γ : TEnv) : ExprList → Ty → Prop
  | nil {T} : TypedElems' Γ .nil T
  | cons {e es T U} : Typed' Γ e U → tyEq T U = true → TypedElems' Γ es T → TypedElems' Γ (.cons e es) T
inductive TypedPairs' (Γ : TEnv) : PairList → Ty → Ty → Prop
  | nil {K V} : TypedPairs' Γ .nil K V
  | cons {k v ps K V K' V'} : Typed' Γ k K' → tyEq K K' = true → Typed' Γ v V' → tyEq V V' = true →
      TypedPairs' Γ ps K V → TypedPairs' Γ (.cons k v ps) K V
inductive TypedFields' (Γ : TEnv) : FieldEList → FieldList → Prop
  | nil : TypedFields' Γ .nil .nil
  | cons {n e fs T Fs} : Typed' Γ e T → TypedFields' Γ fs Fs → TypedFields' Γ (.cons n e fs) (.cons n T Fs)
inductive TypedArgs' (Γ : TEnv) : ExprList → TyList → Prop
  | nil : TypedArgs' Γ .nil .nil
  | cons {e es T Ts} : Typed' Γ e T → TypedArgs' Γ es Ts → TypedArgs' Γ (.cons e es) (.cons T Ts)
end

/-! ## erasure of the attachments the checker writes -/

mutual
def erase : Expr → Expr
  | .list p es _ => .list p (eraseList es) none
  | .map p ps _ => .map p (erasePairs ps) none
  | .obj p fs _ => .obj p (eraseFields fs) none
  | .call p col c as _ _ _ => .call p col (erase c) (eraseList as) none "" 0
  | .subscript p col v i _ => .subscript p col (erase v) (erase i) none
  | .member p col o f fp _ _ => .member p col (erase o) f fp none 0
  | .unary p n np e pre => .unary p n np (erase e) pre
  | .binary p n np fx l r => .binary p n np fx (erase l) (erase r)
  | .ternary p n np l m r => .ternary p n np (erase l) (erase m) (erase r)
  | .group p e => .group p (erase e)
  | e => e
def eraseList : ExprList → ExprList
  | .nil => .nil
  | .cons e es => .cons (erase e) (eraseList es)
def erasePairs : PairList → PairList
  | .nil => .nil
  | .cons k v ps => .cons (erase k) (erase v) (erasePairs ps)
def eraseFields : FieldEList → FieldEList
  | .nil => .nil
  | .cons n e fs => .cons n (erase e) (eraseFields fs)
end

end Yae
