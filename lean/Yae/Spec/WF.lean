/-
  Definitions for C01 (type soundness of evaluation) and C02 (progress / failure discipline).

  * `WF v`        deep well-formedness of a run-time value (Bool): every composite carries a
                  well-formed type of the right shape, its components are `WF` and their own type
                  is `tyEq` to the component type the container declares, object arity = number of
                  fields, map entries carry the key kind of the map, no `.nil` anywhere, function
                  values refer to something that respects their type (`declOK`).
  * `HasTy v T`   `WF v ∧ tyEq T v.typeOf`.
  * `declOK d`    a registered function is what its type says: a `.builtin i` reference has the
                  type and laziness of `builtins[i]`; a host function `hostRespects` its type.
  * `FunsOK`, `EnvOK`   the environment check.
  * `Ann Γ e T`   what `check` guarantees about the annotated tree it returns (`Annotated`).
  * `Allowed f`   the failures an accepted expression may stop with.
-/
import Yae.Model.Eval
import Yae.Proofs.TyEq
namespace Yae.Sound

/-! ### syntactic equality of types (Bool) -/

mutual
def tyBeq : Ty → Ty → Bool
  | .top, .top => true
  | .bot, .bot => true
  | .var a, .var b => a == b
  | .num, .num => true
  | .str, .str => true
  | .bool, .bool => true
  | .time, .time => true
  | .tuple xs, .tuple ys => tyListBeq xs ys
  | .list a, .list b => tyBeq a b
  | .map k v, .map k' v' => tyBeq k k' && tyBeq v v'
  | .obj fs, .obj gs => fieldListBeq fs gs
  | .fn n ps r, .fn n' qs s => n == n' && tyListBeq ps qs && tyBeq r s
  | .maybe a, .maybe b => tyBeq a b
  | _, _ => false
def tyListBeq : TyList → TyList → Bool
  | .nil, .nil => true
  | .cons x xs, .cons y ys => tyBeq x y && tyListBeq xs ys
  | _, _ => false
def fieldListBeq : FieldList → FieldList → Bool
  | .nil, .nil => true
  | .cons n t fs, .cons m u gs => n == m && tyBeq t u && fieldListBeq fs gs
  | _, _ => false
end

/-! ### type-variable names of registered signatures

`inferFun` draws the fresh names `s<n>` and `t<n>`; a registered signature must not use names
that could collide with them (the built-ins use `a`, `k`, `v`). -/

def okVarName (n : String) : Bool :=
  match n.toList with
  | c :: _ => c != 's' && c != 't'
  | [] => true

mutual
def okVars : Ty → Bool
  | .var n => okVarName n
  | .tuple ts => okVarsList ts
  | .list el => okVars el
  | .map k v => okVars k && okVars v
  | .obj fs => okVarsFields fs
  | .fn _ ps r => okVarsList ps && okVars r
  | .maybe el => okVars el
  | _ => true
def okVarsList : TyList → Bool
  | .nil => true
  | .cons t ts => okVars t && okVarsList ts
def okVarsFields : FieldList → Bool
  | .nil => true
  | .cons _ t fs => okVars t && okVarsFields fs
end

/-! ### registered functions -/

/-- A host behaviour respects the signature `ty` it is registered under (a syntactic condition:
for every ground instance of the parameter types and well-formed arguments of those types the
behaviour returns a well-formed value of the instantiated return type, or fails on purpose). -/
def hostRespects (ty : Ty) (beh : HostBeh) (isLazy : Bool) : Bool :=
  match ty with
  | .fn _ ps ret =>
    match beh with
    | .retArg i => !isLazy && (match ps.get? i with
        | some p => tyBeq p ret
        | none => false)
    | .constNum _ => !isLazy && tyBeq ret .num
    | .constStr _ => !isLazy && tyBeq ret .str
    | .constBool _ => !isLazy && tyBeq ret .bool
    | .fail => !isLazy
    | .force order => isLazy && order.all (fun i => decide (i < ps.length)) &&
        (match order.getLast? with
         | some i => (match ps.get? i with
            | some p => tyBeq p ret
            | none => false)
         | none => false)
  | _ => false

/-- The signature is a well-formed function type without clashing variable names, and the
reference respects it. -/
def declOK (d : FunDecl) : Bool :=
  (match d.ty with
   | .fn _ ps ret => wfList ps && ret.wf && okVarsList ps && okVars ret
   | _ => false) &&
  (match d.ref with
   | .builtin i => (match builtins[i]? with
      | some b => tyBeq b.ty d.ty && (b.isLazy == d.isLazy)
      | none => false)
   | .host _ beh => hostRespects d.ty beh d.isLazy)

def FunsOK (funs : List FunDecl) : Prop := ∀ d ∈ funs, declOK d = true

/-! ### well-formed values -/

mutual
def WF : Val → Bool
  | .num _ => true
  | .str _ => true
  | .bool _ => true
  | .time _ => true
  | .list ty vs =>
    (match ty with
     | .list el => ty.wf && WFList el vs
     | _ => false)
  | .map ty es =>
    (match ty with
     | .map k v => ty.wf && WFEntries k v es
     | _ => false)
  | .obj ty vs =>
    (match ty with
     | .obj fs => ty.wf && WFObj fs vs
     | _ => false)
  | .fn ty ref isLazy => declOK ⟨ty, ref, isLazy⟩
  | .just el v => el.wf && WF v && tyEq el v.typeOf
  | .nothing el => el.wf
  | .nil => false
/-- every element is well formed and of (a type equal to) the element type -/
def WFList (el : Ty) : ValList → Bool
  | .nil => true
  | .cons v vs => WF v && tyEq el v.typeOf && WFList el vs
/-- every entry carries the key kind of the map and a well-formed value of the value type -/
def WFEntries (k v : Ty) : EntryList → Bool
  | .nil => true
  | .cons tag _ x es => (tag == k.kind) && WF x && tyEq v x.typeOf && WFEntries k v es
/-- positional: as many values as fields, the i-th value has the type of the i-th field -/
def WFObj : FieldList → ValList → Bool
  | .nil, .nil => true
  | .cons _ t fs, .cons v vs => WF v && tyEq t v.typeOf && WFObj fs vs
  | _, _ => false
end

/-- `v` is a well-formed value of type `T` (its own type is equal to `T`, fields by name). -/
def HasTy (v : Val) (T : Ty) : Prop := WF v = true ∧ tyEq T v.typeOf = true

instance (v : Val) (T : Ty) : Decidable (HasTy v T) := by unfold HasTy; infer_instance

def HasTyList : List Val → TyList → Prop
  | [], .nil => True
  | v :: vs, .cons t ts => HasTy v t ∧ HasTyList vs ts
  | _, _ => False

mutual
/-- no absent (Go `nil`) component anywhere inside the value -/
def noNil : Val → Bool
  | .nil => false
  | .list _ vs => noNilList vs
  | .map _ es => noNilEntries es
  | .obj _ vs => noNilList vs
  | .just _ v => noNil v
  | _ => true
def noNilList : ValList → Bool
  | .nil => true
  | .cons v vs => noNil v && noNilList vs
def noNilEntries : EntryList → Bool
  | .nil => true
  | .cons _ _ v es => noNil v && noNilEntries es
end

/-! ### environments -/

/-- The run-time environment passed the environment check against the typing environment. -/
structure EnvOK (Γ : TEnv) (ρ : REnv) : Prop where
  /-- every declared variable (first binding wins) is bound to a value of its type -/
  vars : ∀ x T, Γ.lookupVar x = some T → ∃ v, ρ.lookupVar x = some v ∧ HasTy v T
  /-- type table and value table are registered in lockstep -/
  funs : ρ.funs = Γ.funs
  /-- declared types are well formed and variable free -/
  tys : ∀ p ∈ Γ.vars, p.2.wf = true ∧ slotFree p.2 = true

/-! ### the annotated tree -/

/-- `T` is the instance of the signature `ps → ret` at argument types `As`. -/
def Inst (ps : TyList) (ret : Ty) (As : TyList) (T : Ty) : Prop :=
  ∃ σ : Subst, σ.Ground ∧ StructEqList (substGList σ ps) As ∧ T = substG σ ret ∧
    T.wf = true ∧ slotFree T = true

mutual
/-- `Ann Γ e T`: `e` is a tree as `check Γ` returns it, of type `T`. -/
inductive Ann (Γ : TEnv) : Expr → Ty → Prop
  | str {p v} : Ann Γ (.str p v) .str
  | num {p v} : Ann Γ (.num p v) .num
  | time {p v} : Ann Γ (.time p v) .time
  | bool {p v} : Ann Γ (.bool p v) .bool
  | listNil {p ty} : Ann Γ (.list p .nil ty) (.list .bot)
  | listCons {p e es el} : Ann Γ e el → AnnElems Γ es el →
      Ann Γ (.list p (.cons e es) (some (.list el))) (.list el)
  | mapNil {p ty} : Ann Γ (.map p .nil ty) (.map .bot .bot)
  | mapCons {p k v ps kT vT} : Ann Γ k kT → kT.isPrimitive = true → Ann Γ v vT →
      AnnPairs Γ ps kT vT →
      Ann Γ (.map p (.cons k v ps) (some (.map kT vT))) (.map kT vT)
  | obj {p fs tys} : AnnFields Γ fs tys → mkObj.wfFieldsShallow tys = true →
      Ann Γ (.obj p fs (some (.obj tys))) (.obj tys)
  | ident {p name T} : Γ.lookupVar name = some T → Ann Γ (.ident p name) T
  /-- statically dispatched call: the run-time lookup finds a registered function whose
  signature instantiates to the argument types, with result type `T` -/
  | callStatic {p col callee args cty resolved index As d n ps ret T} :
      AnnArgs Γ args As → (resolved == "") = false →
      resolveStatic Γ.funs resolved index = some d → d.ty = .fn n ps ret →
      Inst ps ret As T →
      Ann Γ (.call p col callee args cty resolved index) T
  /-- dynamically dispatched call: the callee is an expression of function type -/
  | callDyn {p col callee args cty index As n ps ret T} :
      Ann Γ callee (.fn n ps ret) → AnnArgs Γ args As → Inst ps ret As T →
      Ann Γ (.call p col callee args cty "" index) T
  | subList {p col var idx vty el iT} : Ann Γ var (.list el) → Ann Γ idx iT →
      tyEq iT .num = true → Ann Γ (.subscript p col var idx vty) el
  | subMap {p col var idx vty k v iT} : Ann Γ var (.map k v) → Ann Γ idx iT →
      tyEq iT k = true → Ann Γ (.subscript p col var idx vty) v
  | member {p col o field fp oty index fs T} : Ann Γ o (.obj fs) → fs.find? field = some T →
      Ann Γ (.member p col o field fp oty index) T
/-- list elements after the first: each has a type equal to the element type -/
inductive AnnElems (Γ : TEnv) : ExprList → Ty → Prop
  | nil {el} : AnnElems Γ .nil el
  | cons {e es el T} : Ann Γ e T → tyEq el T = true → AnnElems Γ es el →
      AnnElems Γ (.cons e es) el
inductive AnnPairs (Γ : TEnv) : PairList → Ty → Ty → Prop
  | nil {kT vT} : AnnPairs Γ .nil kT vT
  | cons {k v ps kT vT K V} : Ann Γ k K → tyEq kT K = true → Ann Γ v V → tyEq vT V = true →
      AnnPairs Γ ps kT vT → AnnPairs Γ (.cons k v ps) kT vT
inductive AnnFields (Γ : TEnv) : FieldEList → FieldList → Prop
  | nil : AnnFields Γ .nil .nil
  | cons {n e fs T tys} : Ann Γ e T → AnnFields Γ fs tys →
      AnnFields Γ (.cons n e fs) (.cons n T tys)
inductive AnnArgs (Γ : TEnv) : ExprList → TyList → Prop
  | nil : AnnArgs Γ .nil .nil
  | cons {e es T tys} : Ann Γ e T → AnnArgs Γ es tys → AnnArgs Γ (.cons e es) (.cons T tys)
end

/-! ### outcomes -/

/-- What an accepted expression may stop with: the four documented partial operations, a host
function that fails on purpose, and a miss of the harness' table of external functions
(`regexp.MatchString`, `strtotime`), which is a device of the model, not of the language. -/
def Allowed : Fail → Prop
  | .indexOutOfRange => True
  | .missingKey => True
  | .modZero => True
  | .badRegex => True
  | .hostFail _ => True
  | .stuck s => s = "extern-miss:regex" ∨ s = "extern-miss:strtotime"
  | .fuel => False

/-- The documented partial-operation failures. -/
def Documented : Fail → Prop
  | .indexOutOfRange => True
  | .missingKey => True
  | .modZero => True
  | .badRegex => True
  | _ => False

end Yae.Sound
